#!/usr/bin/python3
"""CPython side of the reference oracle.

Reads a JSON list of programs on stdin, runs each in a fresh namespace with a
`simlog` module whose log/exc_name/tick mirror the Go host functions of
zzverif/pyhost, and writes a JSON list of {id, trace, exc}.  Import scenarios
get their files written to a private temporary directory that is removed
afterwards.  Nothing here draws randomness or reads a clock.
"""
import sys, json, types, os, tempfile, shutil, builtins, importlib

def canon(o, depth=0):
    if depth > 6:
        return "<deep>"
    if o is None:
        return "None"
    if o is True:
        return "True"
    if o is False:
        return "False"
    t = type(o)
    if t is int:
        return str(o)
    if t is str:
        out = ['"']
        for ch in o:
            c = ord(ch)
            if ch == '"':
                out.append('\\"')
            elif ch == '\\':
                out.append('\\\\')
            elif ch == '\n':
                out.append('\\n')
            elif ch == '\t':
                out.append('\\t')
            elif ch == '\r':
                out.append('\\r')
            elif c < 0x20 or c == 0x7f:
                out.append('\\x%02x' % c)
            else:
                out.append(ch)
        out.append('"')
        return ''.join(out)
    if t is float:
        if o == int(o) and -1e15 < o < 1e15:
            return "f%d" % int(o)
        return "f" + format(o, '.12g')
    if t is list:
        return "[" + ",".join(canon(x, depth + 1) for x in o) + "]"
    if t is tuple:
        return "(" + ",".join(canon(x, depth + 1) for x in o) + ")"
    if t is dict:
        return "{" + ",".join(canon(k, depth + 1) + ":" + canon(o[k], depth + 1) for k in sorted(o)) + "}"
    if t is set:
        return "set{" + ",".join(sorted(canon(x, depth + 1) for x in o)) + "}"
    if t is frozenset:
        return "frozenset{" + ",".join(sorted(canon(x, depth + 1) for x in o)) + "}"
    if isinstance(o, type):
        return "<class " + o.__name__ + ">"
    return "<" + t.__name__ + ">"

class Recorder:
    def __init__(self):
        self.trace = []
        self.closed = False
    def log(self, *args):
        # after the program finished, CPython finalises suspended generators
        # (GeneratorExit -> finally blocks run): not part of the history
        if not self.closed and len(self.trace) < 5000:
            self.trace.append(" ".join(canon(a) for a in args))
    def tick(self, *args):
        pass

NORM = {"UnboundLocalError": "NameError", "ModuleNotFoundError": "ImportError"}

def norm(n):
    return NORM.get(n, n)

def exc_name(e):
    if isinstance(e, BaseException):
        return norm(type(e).__name__)
    if isinstance(e, type):
        return "class:" + e.__name__
    return "notexc:" + type(e).__name__

def run_one(p):
    rec = Recorder()
    simlog = types.ModuleType("simlog")
    simlog.log = rec.log
    simlog.exc_name = exc_name
    simlog.tick = rec.tick
    simlog.hcall = lambda f, a, k: f(*a, **k)
    saved_modules = dict(sys.modules)
    saved_path = list(sys.path)
    saved_builtins = dict(builtins.__dict__)
    import math
    saved_math = dict(math.__dict__)
    state = {"root": None}
    def libdir(name):
        return os.path.join(state["root"] or ".", name)
    def fs_add(rel):
        src = (p.get("late_files") or {}).get(rel)
        if src is None or state["root"] is None:
            return
        full = os.path.join(state["root"], rel)
        os.makedirs(os.path.dirname(full), exist_ok=True)
        with open(full, "w") as f:
            f.write(src)
        importlib.invalidate_caches()
    simlog.libdir = libdir
    simlog.fs_add = fs_add
    sys.modules["simlog"] = simlog
    root = None
    exc = ""
    exc2 = None
    try:
        if p.get("files"):
            root = tempfile.mkdtemp(prefix="verifref-")
            state["root"] = root
            for rel, src in p["files"].items():
                full = os.path.join(root, rel)
                os.makedirs(os.path.dirname(full), exist_ok=True)
                with open(full, "w") as f:
                    f.write(src)
            for rel in p.get("dirs") or []:
                os.makedirs(os.path.join(root, rel), exist_ok=True)
            sys.path[:] = [os.path.join(root, d) for d in p.get("path", ["."])]
            sys.dont_write_bytecode = True
        # the program IS the __main__ module of its run: `import __main__` from
        # any module yields its namespace
        _mainmod = type(sys)("__main__")
        g = _mainmod.__dict__
        g["__builtins__"] = builtins
        sys.modules["__main__"] = _mainmod
        try:
            code = compile(p["main"], "<main>", "exec", dont_inherit=True)
        except SyntaxError as e:
            return {"id": p["id"], "trace": rec.trace, "exc": "COMPILE:" + type(e).__name__}
        except BaseException as e:
            return {"id": p["id"], "trace": rec.trace, "exc": "COMPILE:" + type(e).__name__}
        if p.get("mode") == "compile":
            return {"id": p["id"], "trace": rec.trace, "exc": ""}
        try:
            exec(code, g, g)
        except BaseException as e:
            exc = norm(type(e).__name__)
        exc2 = None
        if p.get("after") is not None:
            rec.log("--after--")
            exc2 = ""
            try:
                code2 = compile(p["after"], "<after>", "exec", dont_inherit=True)
                exec(code2, g, g)
            except BaseException as e:
                exc2 = norm(type(e).__name__)
        rec.closed = True
    finally:
        rec.closed = True
        for k in list(sys.modules):
            if k not in saved_modules:
                del sys.modules[k]
        sys.modules.update(saved_modules)
        sys.path[:] = saved_path
        for k in list(builtins.__dict__):
            if k not in saved_builtins:
                del builtins.__dict__[k]
        builtins.__dict__.update(saved_builtins)
        # programs mutate the attributes of the built-in module math
        for k in list(math.__dict__):
            if k not in saved_math:
                del math.__dict__[k]
        math.__dict__.update(saved_math)
        if root:
            shutil.rmtree(root, ignore_errors=True)
    res = {"id": p["id"], "trace": rec.trace, "exc": exc}
    if exc2 is not None:
        res["exc2"] = exc2
    return res

def main():
    sys.setrecursionlimit(400)
    progs = json.load(sys.stdin)
    out = []
    for p in progs:
        try:
            out.append(run_one(p))
        except BaseException as e:  # never let one scenario kill the batch
            out.append({"id": p["id"], "trace": [], "exc": "", "error": repr(e)})
    json.dump(out, sys.stdout)

main()
