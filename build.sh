#!/bin/bash
# Builds the instrumented simulation binary from /repo's CURRENT working tree.
# Prints the build directory on stdout (last line).  Exit 2 on any build problem.
# Builds are cached by content hash of (/repo working tree, /verif machinery) under
# ${VERIF_SCRATCH:-/var/tmp}/verif-build/<hash>; stale entries are removed.
set -u
export GOFLAGS=-mod=mod GOPROXY=off GOSUMDB=off GOTOOLCHAIN=local CGO_ENABLED=${CGO_ENABLED:-1}
VERIF=${VERIF_DIR:-/verif}
REPO=${VERIF_REPO:-/repo}
ROOT=${VERIF_SCRATCH:-/var/tmp}/verif-build
VARIANT=${1:-sim}          # sim | race
mkdir -p "$ROOT" || exit 2

log() { echo "build: $*" >&2; }

hash_tree() {
  ( cd "$REPO" && find . -path ./.git -prune -o -type f \( -name '*.go' -o -name 'go.mod' -o -name 'go.sum' -o -name '*.py' -o -name '*.y' \) -print0 | LC_ALL=C sort -z | xargs -0 sha256sum
    cd "$VERIF" && find _overlay tools build.sh -type f -print0 | LC_ALL=C sort -z | xargs -0 sha256sum
    go version ) | sha256sum | cut -c1-20
}

H=$(hash_tree) || exit 2
DIR="$ROOT/$H"
exec 9>"$ROOT/.lock"
flock 9

if [ ! -x "$VERIF/bin/simrewrite" ] || [ "$VERIF/tools/simrewrite/main.go" -nt "$VERIF/bin/simrewrite" ]; then
  log "building simrewrite"
  mkdir -p "$VERIF/bin"
  ( cd "$VERIF" && go build -o bin/simrewrite ./tools/simrewrite ) >&2 || { log "simrewrite build failed"; exit 2; }
fi

# drop stale build dirs (other tree hashes)
# (a build dir in use by a running check holds a shared lock on its .inuse file)
for d in "$ROOT"/*/; do
  [ -d "$d" ] || continue
  [ "${d%/}" = "$DIR" ] && continue
  if [ -f "${d}.inuse" ]; then
    # handed out less than 15 minutes ago (a check may be about to lock it), or locked
    [ -n "$(find "${d}.inuse" -mmin -15 2>/dev/null)" ] && continue
    ( exec 7<"${d}.inuse"; flock -n -x 7 ) || continue
  fi
  rm -rf "$d"
done

if [ ! -f "$DIR/.ok-src" ]; then
  rm -rf "$DIR"; mkdir -p "$DIR/src" "$DIR/plain" || exit 2
  log "copying working tree of $REPO"
  ( cd "$REPO" && tar --exclude=./.git -cf - . ) | ( cd "$DIR/src" && tar xf - ) || exit 2
  cp -a "$DIR/src/." "$DIR/plain/" || exit 2
  for t in src plain; do
    cp -a "$VERIF/_overlay/simrt" "$VERIF/_overlay/zzverif" "$DIR/$t/" || exit 2
    sed -i 's/^go 1\.1[0-9]$/go 1.20/' "$DIR/$t/go.mod"
  done
  log "instrumenting"
  "$VERIF/bin/simrewrite" -dir "$DIR/src" >"$DIR/rewrite.log" 2>&1 || { cat "$DIR/rewrite.log" >&2; log "instrumenter failed"; exit 2; }
  touch "$DIR/.inuse" "$DIR/.ok-src"
fi

case "$VARIANT" in
  sim)
    if [ ! -x "$DIR/sim" ]; then
      log "building instrumented binary"
      ( cd "$DIR/src" && go build -o "$DIR/sim" ./zzverif/cmd/sim ) >&2 || { log "instrumented build failed"; exit 2; }
    fi ;;
  race)
    if [ ! -x "$DIR/sim-race" ]; then
      log "building race-detector binary (uninstrumented tree)"
      ( cd "$DIR/plain" && go build -race -o "$DIR/sim-race" ./zzverif/cmd/sim ) >&2 || { log "race build failed"; exit 2; }
    fi ;;
esac
touch "$DIR/.inuse"
echo "$DIR"
