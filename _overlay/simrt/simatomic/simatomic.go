// Package simatomic replaces sync/atomic in the instrumented copy: the real
// atomics, each preceded by a preemption point.
package simatomic

import (
	"sync/atomic"
	"unsafe"

	"github.com/go-python/gpython/simrt"
)

func y() { simrt.Yield("atomic") }

type Bool struct{ v atomic.Bool }

func (x *Bool) Load() bool                    { y(); return x.v.Load() }
func (x *Bool) Store(b bool)                  { y(); x.v.Store(b) }
func (x *Bool) Swap(b bool) bool              { y(); return x.v.Swap(b) }
func (x *Bool) CompareAndSwap(o, n bool) bool { y(); return x.v.CompareAndSwap(o, n) }

type Int32 struct{ v atomic.Int32 }

func (x *Int32) Load() int32                    { y(); return x.v.Load() }
func (x *Int32) Store(b int32)                  { y(); x.v.Store(b) }
func (x *Int32) Swap(b int32) int32             { y(); return x.v.Swap(b) }
func (x *Int32) Add(d int32) int32              { y(); return x.v.Add(d) }
func (x *Int32) CompareAndSwap(o, n int32) bool { y(); return x.v.CompareAndSwap(o, n) }

type Int64 struct{ v atomic.Int64 }

func (x *Int64) Load() int64                    { y(); return x.v.Load() }
func (x *Int64) Store(b int64)                  { y(); x.v.Store(b) }
func (x *Int64) Swap(b int64) int64             { y(); return x.v.Swap(b) }
func (x *Int64) Add(d int64) int64              { y(); return x.v.Add(d) }
func (x *Int64) CompareAndSwap(o, n int64) bool { y(); return x.v.CompareAndSwap(o, n) }

type Uint32 struct{ v atomic.Uint32 }

func (x *Uint32) Load() uint32                    { y(); return x.v.Load() }
func (x *Uint32) Store(b uint32)                  { y(); x.v.Store(b) }
func (x *Uint32) Swap(b uint32) uint32            { y(); return x.v.Swap(b) }
func (x *Uint32) Add(d uint32) uint32             { y(); return x.v.Add(d) }
func (x *Uint32) CompareAndSwap(o, n uint32) bool { y(); return x.v.CompareAndSwap(o, n) }

type Uint64 struct{ v atomic.Uint64 }

func (x *Uint64) Load() uint64                    { y(); return x.v.Load() }
func (x *Uint64) Store(b uint64)                  { y(); x.v.Store(b) }
func (x *Uint64) Swap(b uint64) uint64            { y(); return x.v.Swap(b) }
func (x *Uint64) Add(d uint64) uint64             { y(); return x.v.Add(d) }
func (x *Uint64) CompareAndSwap(o, n uint64) bool { y(); return x.v.CompareAndSwap(o, n) }

type Value struct{ v atomic.Value }

func (x *Value) Load() any                    { y(); return x.v.Load() }
func (x *Value) Store(b any)                  { y(); x.v.Store(b) }
func (x *Value) Swap(b any) any               { y(); return x.v.Swap(b) }
func (x *Value) CompareAndSwap(o, n any) bool { y(); return x.v.CompareAndSwap(o, n) }

type Pointer[T any] struct{ v atomic.Pointer[T] }

func (x *Pointer[T]) Load() *T                    { y(); return x.v.Load() }
func (x *Pointer[T]) Store(b *T)                  { y(); x.v.Store(b) }
func (x *Pointer[T]) Swap(b *T) *T                { y(); return x.v.Swap(b) }
func (x *Pointer[T]) CompareAndSwap(o, n *T) bool { y(); return x.v.CompareAndSwap(o, n) }

func AddInt32(p *int32, d int32) int32              { y(); return atomic.AddInt32(p, d) }
func AddInt64(p *int64, d int64) int64              { y(); return atomic.AddInt64(p, d) }
func AddUint32(p *uint32, d uint32) uint32          { y(); return atomic.AddUint32(p, d) }
func AddUint64(p *uint64, d uint64) uint64          { y(); return atomic.AddUint64(p, d) }
func LoadInt32(p *int32) int32                      { y(); return atomic.LoadInt32(p) }
func LoadInt64(p *int64) int64                      { y(); return atomic.LoadInt64(p) }
func LoadUint32(p *uint32) uint32                   { y(); return atomic.LoadUint32(p) }
func LoadUint64(p *uint64) uint64                   { y(); return atomic.LoadUint64(p) }
func StoreInt32(p *int32, v int32)                  { y(); atomic.StoreInt32(p, v) }
func StoreInt64(p *int64, v int64)                  { y(); atomic.StoreInt64(p, v) }
func StoreUint32(p *uint32, v uint32)               { y(); atomic.StoreUint32(p, v) }
func StoreUint64(p *uint64, v uint64)               { y(); atomic.StoreUint64(p, v) }
func SwapInt32(p *int32, v int32) int32             { y(); return atomic.SwapInt32(p, v) }
func SwapInt64(p *int64, v int64) int64             { y(); return atomic.SwapInt64(p, v) }
func SwapUint32(p *uint32, v uint32) uint32         { y(); return atomic.SwapUint32(p, v) }
func SwapUint64(p *uint64, v uint64) uint64         { y(); return atomic.SwapUint64(p, v) }
func CompareAndSwapInt32(p *int32, o, n int32) bool { y(); return atomic.CompareAndSwapInt32(p, o, n) }
func CompareAndSwapInt64(p *int64, o, n int64) bool { y(); return atomic.CompareAndSwapInt64(p, o, n) }
func CompareAndSwapUint32(p *uint32, o, n uint32) bool {
	y()
	return atomic.CompareAndSwapUint32(p, o, n)
}
func CompareAndSwapUint64(p *uint64, o, n uint64) bool {
	y()
	return atomic.CompareAndSwapUint64(p, o, n)
}
func LoadPointer(p *unsafe.Pointer) unsafe.Pointer     { y(); return atomic.LoadPointer(p) }
func StorePointer(p *unsafe.Pointer, v unsafe.Pointer) { y(); atomic.StorePointer(p, v) }
