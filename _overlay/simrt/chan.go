package simrt

// Channel operations of instrumented code (rewrite R6).  Under simulation a
// blocking operation parks the task in the scheduler; the channel itself is
// the real one, so harness code can still select on it without blocking.

func ChanClose[T any](c chan T) {
	s := active
	if s != nil && !s.aborted {
		s.yield("chan.close")
		s.event("chan.close", "")
	}
	close(c)
}

func ChanRecv[C ~chan T | ~<-chan T, T any](c C) T {
	s := active
	if s == nil || s.aborted {
		return <-(<-chan T)(c)
	}
	var v T
	got := false
	try := func() bool {
		if got {
			return true
		}
		select {
		case x, ok := <-(<-chan T)(c):
			_ = ok
			v = x
			got = true
			return true
		default:
			return false
		}
	}
	Block("chan.recv", try)
	return v
}

func ChanSend[T any](c chan T, v T) {
	s := active
	if s == nil || s.aborted {
		c <- v
		return
	}
	sent := false
	try := func() bool {
		if sent {
			return true
		}
		select {
		case c <- v:
			sent = true
			return true
		default:
			return false
		}
	}
	Block("chan.send", try)
}

// ChanClosed reports, without blocking, whether c is closed (and empty).
func ChanClosed[T any](c <-chan T) bool {
	select {
	case _, ok := <-c:
		return !ok
	default:
		return false
	}
}
