package simrt

import (
	"fmt"
	"reflect"
	"sort"
)

// MapOrder is the policy that fixes the iteration order of every `range` over
// a map in instrumented code (rewrite R1).
type MapOrder struct {
	Kind int    // 0 ascending, 1 descending, 2 rotate by K, 3 seeded permutation per loop instance, 4 native (Go's own random order)
	K    uint64 // rotation amount / permutation seed
}

const (
	OrderAsc = iota
	OrderDesc
	OrderRotate
	OrderPerm
	OrderNative
)

func (o MapOrder) String() string {
	switch o.Kind {
	case OrderAsc:
		return "asc"
	case OrderDesc:
		return "desc"
	case OrderRotate:
		return fmt.Sprintf("rot%d", o.K%97)
	case OrderPerm:
		return fmt.Sprintf("perm%x", o.K)
	case OrderNative:
		return "native"
	}
	return "?"
}

// MapIter iterates over a snapshot of a map's keys in simulator-chosen order,
// re-reading the value at every step and skipping keys deleted meanwhile.
// Every behaviour it produces is one the Go spec allows for `range m`.
type MapIter[K comparable, V any] struct {
	m    map[K]V
	keys []K
	i    int
	K    K
	V    V
}

func (it *MapIter[K, V]) Next() bool {
	for it.i < len(it.keys) {
		k := it.keys[it.i]
		it.i++
		v, ok := it.m[k]
		if !ok {
			continue
		}
		it.K, it.V = k, v
		return true
	}
	return false
}

// Iter is what `for k, v := range m` is rewritten to.
func Iter[M ~map[K]V, K comparable, V any](m M) *MapIter[K, V] {
	it := &MapIter[K, V]{m: m}
	if len(m) == 0 {
		return it
	}
	keys := make([]K, 0, len(m))
	for k := range m {
		keys = append(keys, k)
	}
	s := active
	order := MapOrder{}
	var loop uint64
	if s != nil {
		s.mapIters++
		s.loopCtr++
		loop = s.loopCtr
		order = s.cfg.Order
		if s.cur != nil && s.cur.Order != nil {
			order = *s.cur.Order
		}
	}
	if order.Kind == OrderNative {
		it.keys = keys
		return it
	}
	if len(keys) > 1 {
		if !canonSort(keys) && s != nil {
			s.nondet = true
		}
		switch order.Kind {
		case OrderDesc:
			for i, j := 0, len(keys)-1; i < j; i, j = i+1, j-1 {
				keys[i], keys[j] = keys[j], keys[i]
			}
		case OrderRotate:
			r := int(order.K % uint64(len(keys)))
			if r > 0 {
				rot := make([]K, 0, len(keys))
				rot = append(rot, keys[r:]...)
				rot = append(rot, keys[:r]...)
				keys = rot
			}
		case OrderPerm:
			rng := NewRand(Mix(order.K, loop))
			for i := len(keys) - 1; i > 0; i-- {
				j := rng.Intn(i + 1)
				keys[i], keys[j] = keys[j], keys[i]
			}
		}
	}
	it.keys = keys
	return it
}

// canonSort sorts keys into a canonical order that does not depend on Go's
// map iteration order.  It returns false if some keys could not be ordered by
// value (pointers etc.): those keep their native relative order.
func canonSort[K comparable](keys []K) bool {
	switch ks := any(keys).(type) {
	case []string:
		sort.Strings(ks)
		return true
	case []int:
		sort.Ints(ks)
		return true
	}
	type kv struct {
		rank int
		tn   string
		s    string
		i    int64
		u    uint64
		f    float64
		k    K
	}
	all := make([]kv, len(keys))
	det := true
	for i, k := range keys {
		e := kv{k: k}
		v := reflect.ValueOf(any(k))
		if !v.IsValid() {
			e.rank = 0
		} else {
			e.tn = v.Type().String()
			switch v.Kind() {
			case reflect.String:
				e.rank, e.s = 1, v.String()
			case reflect.Int, reflect.Int8, reflect.Int16, reflect.Int32, reflect.Int64:
				e.rank, e.i = 2, v.Int()
			case reflect.Uint, reflect.Uint8, reflect.Uint16, reflect.Uint32, reflect.Uint64, reflect.Uintptr:
				e.rank, e.u = 3, v.Uint()
			case reflect.Float32, reflect.Float64:
				e.rank, e.f = 4, v.Float()
			case reflect.Bool:
				e.rank = 5
				if v.Bool() {
					e.i = 1
				}
			case reflect.Struct:
				e.rank = 6
				e.s = fmt.Sprintf("%#v", v.Interface())
			default:
				e.rank = 9
				det = false
			}
		}
		all[i] = e
	}
	sort.SliceStable(all, func(a, b int) bool {
		x, y := all[a], all[b]
		if x.rank != y.rank {
			return x.rank < y.rank
		}
		switch x.rank {
		case 1, 6:
			if x.s != y.s {
				return x.s < y.s
			}
		case 2, 5:
			if x.i != y.i {
				return x.i < y.i
			}
		case 3:
			if x.u != y.u {
				return x.u < y.u
			}
		case 4:
			if x.f != y.f {
				return x.f < y.f
			}
		case 9:
			return false
		}
		return x.tn < y.tn
	})
	for i := range all {
		keys[i] = all[i].k
	}
	return det
}
