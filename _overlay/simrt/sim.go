// Package simrt is the deterministic simulation runtime that the instrumented
// scratch copy of gpython is linked against (see /verif/DESIGN.md §2.2).
//
// Tasks are real goroutines; exactly one of them holds the baton at any time
// and the scheduler (a pure function of the recorded schedule or of a seeded
// policy) decides at every yield point which one proceeds.  When no simulation
// is active every entry point is a cheap pass-through.
package simrt

import (
	"fmt"
	"hash/fnv"
	"runtime"
	"runtime/debug"
	"sort"
	"strings"
)

// Scheduler decides which task runs next.  cur is the id of the task holding
// the baton if it is still runnable, else -1.  runnable is sorted ascending
// and never empty.  The default decision is cur (if >= 0) else runnable[0].
type Scheduler interface {
	Pick(step int64, cur int, runnable []int) int
}

// Event is one entry of the simulator's log.  Seq is the global event number.
type Event struct {
	Seq  int64
	Step int64
	Task int
	Kind string
	Data string
}

func (e Event) String() string {
	return fmt.Sprintf("%d@%d t%d %s %s", e.Seq, e.Step, e.Task, e.Kind, e.Data)
}

type PanicInfo struct {
	Task  int
	Name  string
	Value string
	Stack string
	Step  int64
}

type taskState int

const (
	tsRunnable taskState = iota
	tsBlocked
	tsDone
)

type Task struct {
	ID      int
	Name    string
	fn      func()
	state   taskState
	pred    func() bool
	blockOn string
	site    string
	wake    chan struct{}
	Order   *MapOrder // per-task map order (nil: the simulation's)
	Steps   int64
	started bool
	Local   map[string]interface{}
}

// Decision is one non-default scheduling decision: at Step run Task.
type Decision struct {
	Step int64 `json:"s"`
	Task int   `json:"t"`
}

type Config struct {
	MaxSteps int64 // 0: unlimited
	Sched    Scheduler
	Order    MapOrder
	KeepLog  bool
	// OnStep, if set, is called by the running task after every scheduling
	// point (it may inspect shared state; it must not block).
	OnStep func(s *Sim)
}

type Result struct {
	Steps      int64
	Switches   int64
	Decisions  []Decision
	Deadlock   bool
	DeadlockAt []string
	Capped     bool
	Panics     []PanicInfo
	Events     []Event
	LogHash    uint64
	MapIters   int64
	NondetKeys bool
}

type Sim struct {
	cfg      Config
	tasks    []*Task
	cur      *Task
	steps    int64
	switches int64
	seq      int64
	decs     []Decision
	events   []Event
	hash     uint64
	panics   []PanicInfo
	done     chan struct{}
	aborted  bool
	capped   bool
	deadlock bool
	dlSites  []string
	mapIters int64
	live     int // tasks not finished
	nondet   bool
	loopCtr  uint64
}

// active is the running simulation.  It is written only by Run on the
// caller's goroutine while no task goroutine runs; hand-offs through channels
// order those writes with every read.
var active *Sim

// Active reports whether a simulation is running.
func Active() bool { return active != nil && !active.aborted }

func New(cfg Config) *Sim {
	if cfg.Sched == nil {
		cfg.Sched = DefaultSched{}
	}
	return &Sim{cfg: cfg, done: make(chan struct{}, 1), hash: 1469598103934665603}
}

// Spawn adds a task.  It may be called before Run, or by a running task.
func (s *Sim) Spawn(name string, fn func()) *Task {
	t := &Task{ID: len(s.tasks), Name: name, fn: fn, wake: make(chan struct{}, 1), Local: map[string]interface{}{}}
	s.tasks = append(s.tasks, t)
	s.live++
	if active == s {
		s.event("spawn", name)
		s.start(t)
	}
	return t
}

func (s *Sim) start(t *Task) {
	t.started = true
	go func() {
		<-t.wake
		defer s.finish(t)
		if s.aborted {
			return
		}
		t.fn()
	}()
}

// finish runs as the deferred epilogue of every task goroutine.
func (s *Sim) finish(t *Task) {
	if r := recover(); r != nil {
		s.panics = append(s.panics, PanicInfo{Task: t.ID, Name: t.Name, Value: fmt.Sprint(r), Stack: trimStack(string(debug.Stack())), Step: s.steps})
		s.event("panic", fmt.Sprint(r))
	}
	t.state = tsDone
	s.live--
	if s.aborted {
		s.done <- struct{}{}
		return
	}
	s.event("exit", t.Name)
	s.cur = nil
	s.dispatch(nil)
}

func trimStack(st string) string {
	lines := strings.Split(st, "\n")
	if len(lines) > 60 {
		lines = lines[:60]
	}
	return strings.Join(lines, "\n")
}

// Run executes the simulation to completion (all tasks finished, deadlock, or
// step cap) on the calling goroutine's behalf and returns what happened.
func (s *Sim) Run() Result {
	if active != nil {
		panic("simrt: nested simulation")
	}
	active = s
	for _, t := range s.tasks {
		if !t.started {
			s.start(t)
		}
	}
	if len(s.tasks) > 0 {
		s.dispatch(nil)
		<-s.done
		if s.aborted {
			// unwind every parked task, one at a time
			for _, t := range s.tasks {
				if t.state != tsDone {
					t.wake <- struct{}{}
					<-s.done
				}
			}
		}
	}
	active = nil
	return Result{
		Steps: s.steps, Switches: s.switches, Decisions: s.decs, Deadlock: s.deadlock, DeadlockAt: s.dlSites,
		Capped: s.capped, Panics: s.panics, Events: s.events, LogHash: s.hash, MapIters: s.mapIters, NondetKeys: s.nondet,
	}
}

// dispatch picks the next task and hands the baton over.  from is the task
// giving up the baton if it wants it back later (nil when it exits).
func (s *Sim) dispatch(from *Task) {
	var runnable []int
	for _, t := range s.tasks {
		switch t.state {
		case tsRunnable:
			runnable = append(runnable, t.ID)
		case tsBlocked:
			if t.pred() {
				runnable = append(runnable, t.ID)
			}
		}
	}
	if len(runnable) == 0 {
		all := true
		for _, t := range s.tasks {
			if t.state != tsDone {
				all = false
				s.dlSites = append(s.dlSites, fmt.Sprintf("t%d(%s) blocked on %s at %s", t.ID, t.Name, t.blockOn, t.site))
			}
		}
		if !all {
			s.deadlock = true
			s.event("deadlock", strings.Join(s.dlSites, "; "))
			s.aborted = true
		}
		s.done <- struct{}{}
		if from != nil {
			s.park(from)
		}
		return
	}
	curID := -1
	if from != nil && from.state == tsRunnable {
		curID = from.ID
	}
	def := runnable[0]
	if curID >= 0 {
		def = curID
	}
	pick := def
	if len(runnable) > 1 {
		pick = s.cfg.Sched.Pick(s.steps, curID, runnable)
		ok := false
		for _, r := range runnable {
			if r == pick {
				ok = true
			}
		}
		if !ok {
			pick = def
		}
	}
	if pick != def {
		s.decs = append(s.decs, Decision{Step: s.steps, Task: pick})
	}
	next := s.tasks[pick]
	if next.state == tsBlocked {
		next.state = tsRunnable
		next.pred = nil
	}
	if next == from {
		s.cur = from
		return
	}
	s.switches++
	s.cur = next
	next.wake <- struct{}{}
	if from != nil {
		s.park(from)
	}
}

func (s *Sim) park(t *Task) {
	<-t.wake
	if s.aborted {
		runtime.Goexit()
	}
}

func (s *Sim) abortFromTask(t *Task) {
	s.aborted = true
	runtime.Goexit()
}

func (s *Sim) yield(site string) {
	t := s.cur
	if t == nil {
		return
	}
	s.steps++
	t.Steps++
	t.site = site
	if s.cfg.MaxSteps > 0 && s.steps > s.cfg.MaxSteps {
		s.capped = true
		s.event("capped", site)
		s.abortFromTask(t)
	}
	if s.live > 1 {
		s.dispatch(t)
	}
	if s.cfg.OnStep != nil {
		s.cfg.OnStep(s)
	}
}

func (s *Sim) block(what, site string, pred func() bool) {
	t := s.cur
	if t == nil {
		panic("simrt: block outside task")
	}
	s.steps++
	t.Steps++
	t.state = tsBlocked
	t.pred = pred
	t.blockOn = what
	t.site = site
	s.dispatch(t)
	if s.cfg.OnStep != nil {
		s.cfg.OnStep(s)
	}
}

func (s *Sim) event(kind, data string) {
	s.seq++
	tid := -1
	if s.cur != nil {
		tid = s.cur.ID
	}
	e := Event{Seq: s.seq, Step: s.steps, Task: tid, Kind: kind, Data: data}
	h := fnv.New64a()
	fmt.Fprintf(h, "%d|%d|%d|%s|%s", s.hash, e.Step, e.Task, e.Kind, e.Data)
	s.hash = h.Sum64()
	if s.cfg.KeepLog {
		s.events = append(s.events, e)
	}
}

// ---------------------------------------------------------------------------
// Entry points used by instrumented code and by harnesses.

// Yield is a preemption point.
func Yield(site string) {
	s := active
	if s == nil || s.aborted {
		return
	}
	s.yield(site)
}

// Block parks the current task until pred() holds (evaluated by the scheduler
// while no task runs).  Outside a simulation it spins on pred with Gosched.
func Block(what string, pred func() bool) {
	s := active
	if s == nil || s.aborted {
		for !pred() {
			if s != nil && s.aborted {
				return
			}
			runtime.Gosched()
		}
		return
	}
	if pred() {
		s.yield(what)
		if pred() {
			return
		}
	}
	for {
		s.block(what, callerSite(), pred)
		if s.aborted || pred() {
			return
		}
	}
}

func callerSite() string {
	for skip := 2; skip < 8; skip++ {
		_, file, line, ok := runtime.Caller(skip)
		if !ok {
			break
		}
		if strings.Contains(file, "/simrt/") {
			continue
		}
		if i := strings.LastIndex(file, "/"); i >= 0 {
			if j := strings.LastIndex(file[:i], "/"); j >= 0 {
				file = file[j+1:]
			}
		}
		return fmt.Sprintf("%s:%d", file, line)
	}
	return "?"
}

// Log appends an event to the simulation log (no-op outside a simulation).
func Log(kind, data string) int64 {
	s := active
	if s == nil {
		return 0
	}
	s.event(kind, data)
	return s.seq
}

// Seq returns the current global event number.
func Seq() int64 {
	if s := active; s != nil {
		return s.seq
	}
	return 0
}

// Steps returns the number of scheduling points passed so far.
func Steps() int64 {
	if s := active; s != nil {
		return s.steps
	}
	return 0
}

// Current returns the running task (nil outside a simulation).
func Current() *Task {
	if s := active; s != nil {
		return s.cur
	}
	return nil
}

// CurrentID returns the running task's id or -1.
func CurrentID() int {
	if t := Current(); t != nil {
		return t.ID
	}
	return -1
}

// Go starts f as a new task of the running simulation (a plain goroutine
// outside one).
func Go(f func()) {
	s := active
	if s == nil || s.aborted {
		go f()
		return
	}
	s.Spawn(fmt.Sprintf("go@%s", callerSite()), f)
	s.yield("go")
}

// ---------------------------------------------------------------------------
// Schedulers

// DefaultSched keeps running the current task and otherwise the lowest id.
type DefaultSched struct{}

func (DefaultSched) Pick(step int64, cur int, runnable []int) int {
	if cur >= 0 {
		return cur
	}
	return runnable[0]
}

// ReplaySched replays recorded non-default decisions.
type ReplaySched struct{ M map[int64]int }

func NewReplaySched(d []Decision) *ReplaySched {
	m := make(map[int64]int, len(d))
	for _, x := range d {
		m[x.Step] = x.Task
	}
	return &ReplaySched{M: m}
}

func (r *ReplaySched) Pick(step int64, cur int, runnable []int) int {
	if t, ok := r.M[step]; ok {
		return t
	}
	if cur >= 0 {
		return cur
	}
	return runnable[0]
}

// RandomSched switches to a uniformly chosen other runnable task with
// probability Num/Den at every scheduling point.
type RandomSched struct {
	R        *Rand
	Num, Den uint64
}

func (r *RandomSched) Pick(step int64, cur int, runnable []int) int {
	if cur >= 0 && r.R.Uint64()%r.Den >= r.Num {
		return cur
	}
	return runnable[r.R.Intn(len(runnable))]
}

// PCTSched is the PCT algorithm: random distinct priorities, D-1 priority
// change points among the first K steps; the highest-priority runnable task
// runs.
type PCTSched struct {
	Prio    map[int]int
	Changes map[int64]bool
	R       *Rand
	low     int
}

func NewPCT(r *Rand, d int, k int64) *PCTSched {
	p := &PCTSched{Prio: map[int]int{}, Changes: map[int64]bool{}, R: r, low: -1}
	for i := 0; i < d-1; i++ {
		p.Changes[int64(r.Intn(int(k)))+1] = true
	}
	return p
}

func (p *PCTSched) prio(t int) int {
	v, ok := p.Prio[t]
	if !ok {
		v = 1000 + p.R.Intn(1000000)
		p.Prio[t] = v
	}
	return v
}

func (p *PCTSched) Pick(step int64, cur int, runnable []int) int {
	if cur >= 0 && p.Changes[step] {
		p.Prio[cur] = p.low
		p.low--
	}
	best := runnable[0]
	for _, t := range runnable[1:] {
		if p.prio(t) > p.prio(best) {
			best = t
		}
	}
	return best
}

// QuantumSched runs each task for a random quantum of steps, then moves to a
// random other one.
type QuantumSched struct {
	R        *Rand
	Min, Max int
	left     int
}

func (q *QuantumSched) Pick(step int64, cur int, runnable []int) int {
	if cur >= 0 && q.left > 0 {
		q.left--
		return cur
	}
	q.left = q.Min + q.R.Intn(q.Max-q.Min+1)
	return runnable[q.R.Intn(len(runnable))]
}

// ---------------------------------------------------------------------------
// Rand is splitmix64: tiny, seedable, identical everywhere.

type Rand struct{ s uint64 }

func NewRand(seed uint64) *Rand { return &Rand{s: seed} }

func (r *Rand) Uint64() uint64 {
	r.s += 0x9e3779b97f4a7c15
	z := r.s
	z = (z ^ (z >> 30)) * 0xbf58476d1ce4e5b9
	z = (z ^ (z >> 27)) * 0x94d049bb133111eb
	return z ^ (z >> 31)
}

func (r *Rand) Intn(n int) int {
	if n <= 1 {
		return 0
	}
	return int(r.Uint64() % uint64(n))
}

func (r *Rand) Bool() bool           { return r.Uint64()&1 == 1 }
func (r *Rand) Chance(n, d int) bool { return r.Intn(d) < n }

// Mix derives an independent seed from a seed and labels.
func Mix(seed uint64, parts ...uint64) uint64 {
	r := NewRand(seed)
	x := r.Uint64()
	for _, p := range parts {
		r2 := NewRand(x ^ (p * 0x9e3779b97f4a7c15) ^ 0x5851f42d4c957f2d)
		x = r2.Uint64()
	}
	return x
}

func MixStr(seed uint64, s string) uint64 {
	h := fnv.New64a()
	h.Write([]byte(s))
	return Mix(seed, h.Sum64())
}

func sortInts(a []int) { sort.Ints(a) }

// InSim reports whether a simulation owns the calling code (also while the
// simulation is being torn down: primitives then never block).
func InSim() bool { return active != nil }

// Fatal models an unrecoverable runtime error (e.g. unlock of unlocked
// mutex): it is recorded and the task panics.
func Fatal(msg string) {
	if s := active; s != nil {
		s.event("fatal", msg)
	}
	panic("fatal error: " + msg)
}
