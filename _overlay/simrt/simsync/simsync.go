// Package simsync replaces package sync in the instrumented copy (rewrite R2).
// Outside a simulation every type behaves as the real one; inside, blocking
// is a scheduler event and every operation is a preemption point.
package simsync

import (
	"sort"
	"sync"

	"github.com/go-python/gpython/simrt"
)

type Locker = sync.Locker

// ---------------------------------------------------------------- Mutex

type Mutex struct {
	real   sync.Mutex
	locked bool
}

func (m *Mutex) Lock() {
	if !simrt.InSim() {
		m.real.Lock()
		return
	}
	simrt.Block("Mutex.Lock", func() bool { return !m.locked })
	m.locked = true
}

func (m *Mutex) TryLock() bool {
	if !simrt.InSim() {
		return m.real.TryLock()
	}
	simrt.Yield("Mutex.TryLock")
	if m.locked {
		return false
	}
	m.locked = true
	return true
}

func (m *Mutex) Unlock() {
	if !simrt.InSim() {
		m.real.Unlock()
		return
	}
	if !m.locked {
		simrt.Fatal("sync: unlock of unlocked mutex")
	}
	m.locked = false
	simrt.Yield("Mutex.Unlock")
}

// ---------------------------------------------------------------- RWMutex

type RWMutex struct {
	real     sync.RWMutex
	readers  int
	writer   bool
	wwaiting int
}

func (m *RWMutex) Lock() {
	if !simrt.InSim() {
		m.real.Lock()
		return
	}
	m.wwaiting++
	simrt.Block("RWMutex.Lock", func() bool { return !m.writer && m.readers == 0 })
	m.wwaiting--
	m.writer = true
}

func (m *RWMutex) Unlock() {
	if !simrt.InSim() {
		m.real.Unlock()
		return
	}
	if !m.writer {
		simrt.Fatal("sync: Unlock of unlocked RWMutex")
	}
	m.writer = false
	simrt.Yield("RWMutex.Unlock")
}

func (m *RWMutex) RLock() {
	if !simrt.InSim() {
		m.real.RLock()
		return
	}
	// as in the real RWMutex a pending writer blocks new readers
	simrt.Block("RWMutex.RLock", func() bool { return !m.writer && m.wwaiting == 0 })
	m.readers++
}

func (m *RWMutex) RUnlock() {
	if !simrt.InSim() {
		m.real.RUnlock()
		return
	}
	if m.readers <= 0 {
		simrt.Fatal("sync: RUnlock of unlocked RWMutex")
	}
	m.readers--
	simrt.Yield("RWMutex.RUnlock")
}

func (m *RWMutex) TryLock() bool {
	if !simrt.InSim() {
		return m.real.TryLock()
	}
	simrt.Yield("RWMutex.TryLock")
	if m.writer || m.readers > 0 {
		return false
	}
	m.writer = true
	return true
}

func (m *RWMutex) TryRLock() bool {
	if !simrt.InSim() {
		return m.real.TryRLock()
	}
	simrt.Yield("RWMutex.TryRLock")
	if m.writer || m.wwaiting > 0 {
		return false
	}
	m.readers++
	return true
}

type rlocker RWMutex

func (r *rlocker) Lock()   { (*RWMutex)(r).RLock() }
func (r *rlocker) Unlock() { (*RWMutex)(r).RUnlock() }

func (m *RWMutex) RLocker() Locker { return (*rlocker)(m) }

// ---------------------------------------------------------------- Once

type Once struct {
	real    sync.Once
	done    bool
	running bool
}

func (o *Once) Do(f func()) {
	if !simrt.InSim() {
		if o.done { // already completed under simulation
			return
		}
		o.real.Do(f)
		return
	}
	simrt.Yield("Once.Do")
	if o.done {
		return
	}
	if o.running {
		simrt.Block("Once.Do", func() bool { return o.done })
		return
	}
	o.running = true
	defer func() {
		o.done = true
		o.running = false
	}()
	f()
}

// ---------------------------------------------------------------- WaitGroup

type wgWaiter struct{ released bool }

type WaitGroup struct {
	real    sync.WaitGroup
	n       int
	waiters []*wgWaiter
}

func (wg *WaitGroup) Add(delta int) {
	if !simrt.InSim() {
		wg.real.Add(delta)
		return
	}
	simrt.Yield("WaitGroup.Add")
	wg.n += delta
	if wg.n < 0 {
		panic("sync: negative WaitGroup counter")
	}
	if wg.n == 0 {
		for _, w := range wg.waiters {
			w.released = true
		}
		wg.waiters = nil
	}
}

func (wg *WaitGroup) Done() { wg.Add(-1) }

func (wg *WaitGroup) Wait() {
	if !simrt.InSim() {
		wg.real.Wait()
		return
	}
	simrt.Yield("WaitGroup.Wait")
	if wg.n == 0 {
		return
	}
	w := &wgWaiter{}
	wg.waiters = append(wg.waiters, w)
	simrt.Block("WaitGroup.Wait", func() bool { return w.released })
}

func (wg *WaitGroup) Go(f func()) {
	wg.Add(1)
	simrt.Go(func() {
		defer wg.Done()
		f()
	})
}

// ---------------------------------------------------------------- Cond

type condWaiter struct{ signalled bool }

type Cond struct {
	L       Locker
	real    *sync.Cond
	waiters []*condWaiter
}

func NewCond(l Locker) *Cond { return &Cond{L: l, real: sync.NewCond(l)} }

func (c *Cond) realCond() *sync.Cond {
	if c.real == nil {
		c.real = sync.NewCond(c.L)
	}
	c.real.L = c.L
	return c.real
}

func (c *Cond) Wait() {
	if !simrt.InSim() {
		c.realCond().Wait()
		return
	}
	w := &condWaiter{}
	c.waiters = append(c.waiters, w)
	c.L.Unlock()
	simrt.Block("Cond.Wait", func() bool { return w.signalled })
	c.L.Lock()
}

func (c *Cond) Signal() {
	if !simrt.InSim() {
		c.realCond().Signal()
		return
	}
	simrt.Yield("Cond.Signal")
	if len(c.waiters) > 0 {
		c.waiters[0].signalled = true
		c.waiters = c.waiters[1:]
	}
}

func (c *Cond) Broadcast() {
	if !simrt.InSim() {
		c.realCond().Broadcast()
		return
	}
	simrt.Yield("Cond.Broadcast")
	for _, w := range c.waiters {
		w.signalled = true
	}
	c.waiters = nil
}

// ---------------------------------------------------------------- Map, Pool

// Map is a plain map; every operation is a preemption point and Range visits
// keys in a deterministic order.
type Map struct {
	mu sync.Mutex
	m  map[any]any
}

func (m *Map) op() func() {
	simrt.Yield("sync.Map")
	m.mu.Lock()
	if m.m == nil {
		m.m = map[any]any{}
	}
	return m.mu.Unlock
}

func (m *Map) Load(k any) (any, bool) { defer m.op()(); v, ok := m.m[k]; return v, ok }
func (m *Map) Store(k, v any)         { defer m.op()(); m.m[k] = v }
func (m *Map) Delete(k any)           { defer m.op()(); delete(m.m, k) }
func (m *Map) LoadOrStore(k, v any) (any, bool) {
	defer m.op()()
	if old, ok := m.m[k]; ok {
		return old, true
	}
	m.m[k] = v
	return v, false
}
func (m *Map) LoadAndDelete(k any) (any, bool) {
	defer m.op()()
	v, ok := m.m[k]
	delete(m.m, k)
	return v, ok
}
func (m *Map) Swap(k, v any) (any, bool) {
	defer m.op()()
	old, ok := m.m[k]
	m.m[k] = v
	return old, ok
}
func (m *Map) CompareAndSwap(k, old, new any) bool {
	defer m.op()()
	if cur, ok := m.m[k]; ok && cur == old {
		m.m[k] = new
		return true
	}
	return false
}
func (m *Map) Range(f func(k, v any) bool) {
	unlock := m.op()
	it := simrt.Iter(m.m)
	type kv struct{ k, v any }
	var all []kv
	for it.Next() {
		all = append(all, kv{it.K, it.V})
	}
	unlock()
	for _, e := range all {
		if !f(e.k, e.v) {
			return
		}
	}
}

type Pool struct {
	New   func() any
	mu    sync.Mutex
	items []any
}

func (p *Pool) Get() any {
	simrt.Yield("Pool.Get")
	p.mu.Lock()
	if n := len(p.items); n > 0 {
		x := p.items[n-1]
		p.items = p.items[:n-1]
		p.mu.Unlock()
		return x
	}
	p.mu.Unlock()
	// New runs instrumented code (it may yield): never under the real mutex
	if p.New != nil {
		return p.New()
	}
	return nil
}

func (p *Pool) Put(x any) {
	simrt.Yield("Pool.Put")
	p.mu.Lock()
	p.items = append(p.items, x)
	p.mu.Unlock()
}

func OnceFunc(f func()) func() {
	var o Once
	return func() { o.Do(f) }
}

var _ = sort.Ints
