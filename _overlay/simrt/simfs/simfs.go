// Package simfs is the virtual file system behind the import resolver
// (rewrite R5).  With no FS installed every call goes to the real os package.
package simfs

import (
	"bytes"
	"io"
	"io/fs"
	"os"
	"path"
	"sort"
	"strings"
	"syscall"
	"time"

	"github.com/go-python/gpython/simrt"
)

// Fault kinds for a path.
const (
	FaultNone     = 0
	FaultStatEIO  = 1 // stat fails with EIO
	FaultReadEIO  = 2 // stat ok, read fails with EIO
	FaultVanish   = 3 // stat ok, read fails with ENOENT
	FaultTorn     = 4 // read returns a prefix of the content
	FaultStatOnce = 5 // first stat fails with EIO, later ones succeed
)

type Node struct {
	Dir   bool
	Data  []byte
	Fault int
	TornN int
	stats int
}

type FS struct {
	Cwd   string
	Nodes map[string]*Node
	// counters of what actually fired
	Fired map[string]int
	Ops   int
}

func New() *FS {
	return &FS{Cwd: "/simcwd", Nodes: map[string]*Node{"/": {Dir: true}, "/simcwd": {Dir: true}}, Fired: map[string]int{}}
}

var cur *FS

// OnOp, if set, is called for every file-system access made through the seam.
var OnOp func(op, name string)

// Install makes f the file system seen by instrumented code (nil: real os).
func Install(f *FS) { cur = f }

func (f *FS) AddDir(p string) {
	p = path.Clean(p)
	for p != "/" && p != "." {
		if _, ok := f.Nodes[p]; !ok {
			f.Nodes[p] = &Node{Dir: true}
		}
		p = path.Dir(p)
	}
}

func (f *FS) AddFile(p string, data string) *Node {
	p = path.Clean(p)
	f.AddDir(path.Dir(p))
	n := &Node{Data: []byte(data)}
	f.Nodes[p] = n
	return n
}

func (f *FS) Paths() []string {
	var out []string
	for p := range f.Nodes {
		out = append(out, p)
	}
	sort.Strings(out)
	return out
}

type info struct {
	name string
	n    *Node
}

func (i info) Name() string { return i.name }
func (i info) Size() int64  { return int64(len(i.n.Data)) }
func (i info) Mode() fs.FileMode {
	if i.n.Dir {
		return fs.ModeDir | 0o755
	}
	return 0o644
}
func (i info) ModTime() time.Time { return time.Unix(0, 0) }
func (i info) IsDir() bool        { return i.n.Dir }
func (i info) Sys() any           { return nil }

func perr(op, p string, e error) error { return &os.PathError{Op: op, Path: p, Err: e} }

func (f *FS) lookup(p string) *Node {
	p = path.Clean(p)
	return f.Nodes[p]
}

func Stat(name string) (os.FileInfo, error) {
	f := cur
	if f == nil {
		return os.Stat(name)
	}
	simrt.Yield("fs.stat")
	f.Ops++
	if OnOp != nil {
		OnOp("stat", name)
	}
	n := f.lookup(name)
	if n == nil {
		simrt.Log("fs.stat", name+" ENOENT")
		f.Fired["enoent"]++
		return nil, perr("stat", name, syscall.ENOENT)
	}
	n.stats++
	if n.Fault == FaultStatEIO || (n.Fault == FaultStatOnce && n.stats == 1) {
		simrt.Log("fs.stat", name+" EIO")
		f.Fired["stat_eio"]++
		return nil, perr("stat", name, syscall.EIO)
	}
	simrt.Log("fs.stat", name+" ok")
	return info{path.Base(name), n}, nil
}

func Lstat(name string) (os.FileInfo, error) { return Stat(name) }

func ReadFile(name string) ([]byte, error) {
	f := cur
	if f == nil {
		return os.ReadFile(name)
	}
	simrt.Yield("fs.read")
	f.Ops++
	if OnOp != nil {
		OnOp("read", name)
	}
	n := f.lookup(name)
	if n == nil {
		simrt.Log("fs.read", name+" ENOENT")
		f.Fired["enoent"]++
		return nil, perr("open", name, syscall.ENOENT)
	}
	if n.Dir {
		return nil, perr("read", name, syscall.EISDIR)
	}
	switch n.Fault {
	case FaultReadEIO:
		simrt.Log("fs.read", name+" EIO")
		f.Fired["read_eio"]++
		return nil, perr("read", name, syscall.EIO)
	case FaultVanish:
		simrt.Log("fs.read", name+" vanished")
		f.Fired["vanish"]++
		return nil, perr("open", name, syscall.ENOENT)
	case FaultTorn:
		k := n.TornN
		if k > len(n.Data) {
			k = len(n.Data)
		}
		simrt.Log("fs.read", name+" torn")
		f.Fired["torn"]++
		return append([]byte(nil), n.Data[:k]...), nil
	}
	simrt.Log("fs.read", name+" ok")
	return append([]byte(nil), n.Data...), nil
}

type File interface {
	io.Reader
	io.Closer
}

type memFile struct{ *bytes.Reader }

func (memFile) Close() error { return nil }

func Open(name string) (File, error) {
	f := cur
	if f == nil {
		return os.Open(name)
	}
	b, err := ReadFile(name)
	if err != nil {
		return nil, err
	}
	return memFile{bytes.NewReader(b)}, nil
}

// WFile is what OpenFile returns (an *os.File when no file system is installed).
type WFile interface {
	io.Writer
	io.Closer
}

// OpenFile: the simulated tree is read-only - opening for writing fails the
// way it does on a read-only mount.
func OpenFile(name string, flag int, perm os.FileMode) (WFile, error) {
	if cur == nil {
		return os.OpenFile(name, flag, perm)
	}
	return nil, perr("open", name, syscall.EROFS)
}

func Getwd() (string, error) {
	f := cur
	if f == nil {
		return os.Getwd()
	}
	return f.Cwd, nil
}

var _ = strings.TrimSpace
