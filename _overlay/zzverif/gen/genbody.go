package gen

import (
	"fmt"
	"strings"

	"github.com/go-python/gpython/simrt"
)

// GenBody renders a generator function `gr<tag>(tag, exc)` with a seeded
// random body: yields in statement and in expression position (operands
// pending on the value stack across the suspension), inside for / while loops
// (loop iterators pending), try/finally (with and without a yield in the
// finally block), try/except handlers, with blocks, nested delegation, break /
// continue / return through pending finally blocks, and one optional
// `raise exc`.  What is preserved across a suspension - locals, loop position,
// pending blocks, half-built displays and argument lists - is exactly what the
// reference interpreter preserves for the same text.
//
// Constraints that keep the text meaning the same in Python 3.4 and 3.11: no
// StopIteration can leak out of the body (no bare next()), no continue / break
// / return inside a finally block, no yield inside comprehensions, inner
// generators have no finally blocks (an abandoned one is finalised at once by
// a reference-counting interpreter).
func GenBody(r *simrt.Rand, tag int, withRaise bool) string {
	g := &gbody{r: r, tag: tag, budget: 6 + r.Intn(14)}
	if withRaise {
		g.raiseAt = 2 + r.Intn(g.budget)
	}
	fmt.Fprintf(&g.b, "def gr%d(tag, exc):\n    acc = 1\n    log(tag, \"start\")\n", tag)
	n := 2 + r.Intn(4)
	for i := 0; i < n; i++ {
		g.stmt(1, 0, false, false)
	}
	if r.Chance(2, 3) {
		g.line(1, "return acc %% 7 + %d", tag*1000+900)
	}
	return g.b.String()
}

type gbody struct {
	r       *simrt.Rand
	b       strings.Builder
	tag     int
	yid     int
	vid     int
	budget  int
	raiseAt int
	stmts   int
}

func (g *gbody) line(ind int, f string, a ...interface{}) {
	g.b.WriteString(strings.Repeat("    ", ind))
	fmt.Fprintf(&g.b, f, a...)
	g.b.WriteByte('\n')
}

func (g *gbody) val() int { g.yid++; return g.tag*1000 + g.yid }

func (g *gbody) name(p string) string { g.vid++; return fmt.Sprintf("%s%d", p, g.vid) }

func (g *gbody) block(ind, depth int, inLoop, inFin bool) {
	n := 1 + g.r.Intn(3)
	for i := 0; i < n; i++ {
		g.stmt(ind, depth, inLoop, inFin)
	}
}

func (g *gbody) stmt(ind, depth int, inLoop, inFin bool) {
	g.stmts++
	if g.raiseAt > 0 && g.stmts == g.raiseAt {
		g.line(ind, "if exc is not None:")
		g.line(ind+1, "log(tag, \"raise\")")
		g.line(ind+1, "raise exc")
	}
	k := g.r.Intn(23)
	if g.budget <= 0 || depth >= 3 {
		k = g.r.Intn(6)
	}
	g.budget--
	switch k {
	case 0, 1:
		g.line(ind, "yield %d", g.val())
	case 2:
		g.line(ind, "got = yield %d", g.val())
		g.line(ind, "if got is not None:")
		g.line(ind+1, "log(tag, \"got\", got)")
	case 3:
		g.line(ind, "acc = acc * 3 + %d", g.r.Intn(5))
		g.line(ind, "yield acc")
	case 4:
		// operands pending on the value stack while suspended
		switch g.r.Intn(7) {
		case 0:
			g.line(ind, "log(tag, \"lst\", [acc, (yield %d), 2, (yield %d)])", g.val(), g.val())
		case 1:
			g.line(ind, "log(tag, \"call\", fargs(5, (yield %d), acc))", g.val())
		case 2:
			g.line(ind, "acc = acc + (0 if (yield %d) is None else 1)", g.val())
		case 3:
			g.line(ind, "_d = {\"a\": (yield %d), \"b\": (yield %d)}", g.val(), g.val())
			g.line(ind, "log(tag, \"d\", _d[\"a\"], _d[\"b\"])")
		case 4:
			g.line(ind, "_t = ((yield %d), acc, (yield %d))", g.val(), g.val())
			g.line(ind, "log(tag, \"t\", list(_t))")
		case 5:
			g.line(ind, "acc = acc * 2 + fargs(acc, (yield %d))[0] %% 5", g.val())
		default:
			g.line(ind, "log(tag, \"cmp\", acc < 10 ** 9 and (yield %d) is None, acc)", g.val())
		}
	case 5:
		if inLoop && !inFin {
			g.line(ind, "if acc %% %d == %d:", 2+g.r.Intn(2), g.r.Intn(2))
			g.line(ind+1, "log(tag, \"%s\")", []string{"brk", "cnt"}[g.r.Intn(2)])
			if g.r.Chance(1, 2) {
				g.line(ind+1, "break")
			} else {
				g.line(ind+1, "continue")
			}
		} else {
			g.line(ind, "acc = acc + %d", 1+g.r.Intn(3))
		}
	case 6, 7:
		v := g.name("i")
		switch g.r.Intn(4) {
		case 0:
			g.line(ind, "for %s in range(%d):", v, g.r.Intn(4))
		case 1:
			g.line(ind, "for %s in [%d, %d]:", v, g.r.Intn(9), g.r.Intn(9))
		case 2:
			g.line(ind, "for %s in It(%d, %d, -1, None, StopIteration):", v, g.tag+20, 1+g.r.Intn(2))
		default:
			g.line(ind, "for %s in _inn(%d):", v, g.val())
		}
		g.line(ind+1, "acc = acc + %s %% 3", v)
		g.block(ind+1, depth+1, true, inFin)
		if g.r.Chance(1, 4) {
			g.line(ind, "else:")
			g.line(ind+1, "log(tag, \"forelse\")")
			g.line(ind+1, "yield %d", g.val())
		}
	case 8:
		c := g.name("c")
		g.line(ind, "%s = 0", c)
		g.line(ind, "while %s < %d:", c, 1+g.r.Intn(3))
		g.line(ind+1, "%s += 1", c)
		g.block(ind+1, depth+1, true, inFin)
	case 9, 10:
		g.line(ind, "try:")
		g.block(ind+1, depth+1, inLoop, inFin)
		g.line(ind, "finally:")
		g.line(ind+1, "log(tag, \"fin\", %d)", g.val())
		if g.r.Chance(1, 2) {
			g.block(ind+1, depth+1, false, true)
		}
	case 11, 12:
		g.line(ind, "try:")
		g.block(ind+1, depth+1, inLoop, inFin)
		if g.r.Chance(2, 3) {
			g.line(ind+1, "raise ValueError(\"P:h\")")
		}
		g.line(ind, "except ValueError as _e:")
		g.line(ind+1, "log(tag, \"handler\", sargs(_e))")
		g.block(ind+1, depth+1, inLoop, inFin)
		if g.r.Chance(1, 3) {
			g.line(ind, "else:")
			g.line(ind+1, "yield %d", g.val())
		}
		if g.r.Chance(1, 3) {
			g.line(ind, "finally:")
			g.line(ind+1, "log(tag, \"fin\", %d)", g.val())
		}
	case 13:
		g.line(ind, "with _Ctx(tag, %d) as _w:", g.val())
		g.line(ind+1, "acc = acc + _w %% 2")
		g.block(ind+1, depth+1, inLoop, inFin)
	case 14:
		g.line(ind, "if acc %% 2 == %d:", g.r.Intn(2))
		g.block(ind+1, depth+1, inLoop, inFin)
		if g.r.Chance(1, 2) {
			g.line(ind, "else:")
			g.block(ind+1, depth+1, inLoop, inFin)
		}
	case 15:
		g.line(ind, "_r = yield from _inn(%d)", g.val())
		g.line(ind, "log(tag, \"yf\", _r)")
	case 16:
		g.line(ind, "for _v in _inn(%d):", g.val())
		g.line(ind+1, "_s = yield _v + 1")
		g.line(ind+1, "if _s is not None:")
		g.line(ind+2, "acc = acc + 1")
	case 17:
		if !inFin {
			g.line(ind, "if acc %% 5 == %d:", g.r.Intn(5))
			g.line(ind+1, "log(tag, \"ret\")")
			g.line(ind+1, "return acc")
		} else {
			g.line(ind, "yield %d", g.val())
		}
	case 18:
		// a nested function and a lambda closing over a local that changes
		// between suspensions
		f := g.name("f")
		g.line(ind, "%s = lambda: acc", f)
		g.line(ind, "yield %d", g.val())
		g.line(ind, "acc = acc + 1")
		g.line(ind, "yield %s() * 10", f)
	case 21:
		// the exception being handled is still the one a bare raise re-raises
		// after the handler was suspended and resumed
		g.line(ind, "try:")
		g.line(ind+1, "try:")
		g.line(ind+2, "raise ValueError(\"P:r%d\")", g.val())
		g.line(ind+1, "except ValueError:")
		g.line(ind+2, "yield %d", g.val())
		g.line(ind+2, "raise")
		g.line(ind, "except ValueError as _e2:")
		g.line(ind+1, "log(tag, \"reraised\", sargs(_e2))")
	case 19, 20:
		// re-entrancy: while this frame is executing, something it calls
		// resumes THIS generator (next / send / a consumer): ValueError, and
		// the running frame's pending operands are untouched
		switch g.r.Intn(4) {
		case 0:
			g.line(ind, "log(tag, \"poke\", [10, _poke(tag, %d), 30, acc])", g.val())
		case 1:
			g.line(ind, "acc = acc + len(fargs(1, _poke(tag, None), 2))")
			g.line(ind, "yield acc")
		case 2:
			g.line(ind, "try:")
			g.line(ind+1, "for _z in _selfs[\"t\" + str(tag)]:")
			g.line(ind+2, "log(tag, \"self-item\", _z)")
			g.line(ind+1, "log(tag, \"self-empty\")")
			g.line(ind, "except ValueError:")
			g.line(ind+1, "log(tag, \"self-busy\")")
		default:
			g.line(ind, "try:")
			g.line(ind+1, "log(tag, \"self-list\", list(_selfs[\"t\" + str(tag)]))")
			g.line(ind, "except ValueError:")
			g.line(ind+1, "log(tag, \"self-busy\")")
		}
	default:
		g.line(ind, "_x = yield %d", g.val())
		g.line(ind, "_y = yield (0 if _x is None else _x) + %d", g.val())
		g.line(ind, "log(tag, \"xy\", _x, _y)")
	}
}

const genBodyPrelude = `class _Ctx:
    def __init__(self, tag, k):
        self.t = (tag, k)
    def __enter__(self):
        log(self.t[0], "enter", self.t[1])
        return self.t[1]
    def __exit__(self, a, b, c):
        log(self.t[0], "exit", self.t[1], a is None)
        return False
_selfs = {}
def _poke(tag, v):
    # resumes the generator that is running right now
    try:
        if v is None:
            return next(_selfs["t" + str(tag)])
        return _selfs["t" + str(tag)].send(v)
    except ValueError:
        return "busy"
def _inn(k):
    got = yield k
    if got is not None:
        yield got
    yield k + 1
    return k + 2
`
