package gen

import (
	"fmt"
	"strings"

	"github.com/go-python/gpython/simrt"
)

// ContProg is a history of operations on a small pool of aliased lists,
// string-keyed dicts and sets of scalars.
type ContProg struct {
	Init []string `json:"init"` // initial bindings of a0..a5 (Python expressions)
	Ops  []ContOp `json:"ops"`
}

type ContOp struct {
	Kind string `json:"kind"` // descriptor, e.g. list.setitem
	Stmt string `json:"stmt"` // Python statement (may be multi-line)
	Expr string `json:"expr"` // or: Python expression whose value is logged
}

const nAlias = 6

type cgen struct {
	usedMixed bool
	r         *simrt.Rand
	typ       [nAlias]string // list dict set
	excl      map[string]bool
}

func (g *cgen) of(t string) (int, bool) {
	var c []int
	for i, x := range g.typ {
		if x == t {
			c = append(c, i)
		}
	}
	if len(c) == 0 {
		return 0, false
	}
	return c[g.r.Intn(len(c))], true
}

func a(i int) string { return fmt.Sprintf("a%d", i) }

func (g *cgen) val() string { return fmt.Sprint(g.r.Intn(8)) }

func (g *cgen) idx() string {
	if g.r.Chance(1, 12) {
		return fmt.Sprint([]int{7, 8, 15, 16, 17, 31, 32, 63, 64, 127, 128, 255, 256, -8, -16, -17, -256, -257}[g.r.Intn(18)])
	}
	return fmt.Sprint(g.r.Intn(9) - 4)
}

func (g *cgen) optIdx() string {
	if g.r.Chance(1, 3) {
		return ""
	}
	return g.idx()
}

func (g *cgen) slice(ext bool) string {
	s := g.optIdx() + ":" + g.optIdx()
	if ext {
		s += ":" + []string{"2", "-1", "-2", "3", "1"}[g.r.Intn(5)]
	}
	return s
}

func (g *cgen) intList() string {
	n := g.r.Intn(4)
	v := make([]string, n)
	for i := range v {
		v[i] = g.val()
	}
	return "[" + strings.Join(v, ", ") + "]"
}

func (g *cgen) key() string { return fmt.Sprintf("\"k%d\"", g.r.Intn(5)) }

func (g *cgen) scalar(mixed bool) string {
	if mixed && g.r.Chance(1, 3) {
		g.usedMixed = true
		return []string{"True", "1.0", "False", "0.0"}[g.r.Intn(4)]
	}
	if g.r.Chance(1, 3) {
		return fmt.Sprintf("\"s%d\"", g.r.Intn(4))
	}
	return g.val()
}

// GenCont generates one history.  excl lists op kinds that must not be
// generated (input classes of recorded known findings).
func GenCont(r *simrt.Rand, excl map[string]bool) *ContProg {
	g := &cgen{r: r, excl: excl}
	p := &ContProg{}
	mixed := !excl["set.mixed-equal-scalars"] && r.Chance(1, 4)
	for i := 0; i < nAlias; i++ {
		switch x := r.Intn(10); {
		case i > 0 && x < 3:
			j := r.Intn(i)
			g.typ[i] = g.typ[j]
			p.Init = append(p.Init, a(j)) // alias of an earlier one
		case x < 7:
			g.typ[i] = "list"
			if r.Chance(1, 10) {
				// sizes around the usual growth / small-buffer thresholds
				n := []int{7, 8, 9, 15, 16, 17, 31, 32, 33, 64, 65}[r.Intn(11)]
				if r.Chance(1, 6) {
					n = []int{127, 128, 129, 255, 256, 257}[r.Intn(6)]
				}
				p.Init = append(p.Init, fmt.Sprintf("[_i %% 7 for _i in range(%d)]", n))
			} else {
				p.Init = append(p.Init, g.intList())
			}
		case x < 9:
			g.typ[i] = "dict"
			n := r.Intn(3)
			kv := []string{}
			for k := 0; k < n; k++ {
				kv = append(kv, g.key()+": "+g.val())
			}
			if r.Chance(1, 10) {
				// beyond any small-table threshold (the five usual keys k0..k4 are among them)
				p.Init = append(p.Init, fmt.Sprintf("{(\"k%%d\" %% _i): _i %% 7 for _i in range(%d)}", []int{9, 17, 33, 65, 130, 260}[r.Intn(6)]))
			} else {
				p.Init = append(p.Init, "{"+strings.Join(kv, ", ")+"}")
			}
		default:
			g.typ[i] = "set"
			n := r.Intn(3)
			e := []string{}
			for k := 0; k < n; k++ {
				e = append(e, g.scalar(false))
			}
			if r.Chance(1, 10) {
				p.Init = append(p.Init, fmt.Sprintf("set(range(%d))", []int{9, 17, 33, 65, 130, 260}[r.Intn(6)]))
			} else if n == 0 {
				p.Init = append(p.Init, "set()")
			} else {
				p.Init = append(p.Init, "{"+strings.Join(e, ", ")+"}")
			}
		}
	}
	nops := 2 + r.Intn(11*Scale)
	if r.Chance(1, 12) {
		nops = 20 + r.Intn(30) // long histories
	}
	for len(p.Ops) < nops {
		g.usedMixed = false
		op, ok := g.op(mixed)
		if ok && g.usedMixed {
			op.Kind += "|mixed"
		}
		if !ok || excl[op.Kind] {
			if r.Chance(1, 50) {
				break
			}
			continue
		}
		p.Ops = append(p.Ops, op)
	}
	return p
}

func st(kind, stmt string) (ContOp, bool) { return ContOp{Kind: kind, Stmt: stmt}, true }
func ex(kind, expr string) (ContOp, bool) { return ContOp{Kind: kind, Expr: expr}, true }

// nestedOp: lists that contain other pool lists (containment is by reference,
// copies are shallow).
func (g *cgen) nestedOp() (ContOp, bool) {
	r := g.r
	z := r.Intn(nAlias)
	xi, okx := g.of("list")
	yi, _ := g.of("list")
	ni, okn := g.of("nested")
	if !okn || r.Chance(1, 4) {
		if !okx {
			return ContOp{}, false
		}
		if z == xi || z == yi {
			return ContOp{}, false
		}
		g.typ[z] = "nested"
		return st("nested.new", fmt.Sprintf("%s = [%s, %s]", a(z), a(xi), a(yi)))
	}
	n := a(ni)
	switch r.Intn(12) {
	case 0, 1:
		return st("nested.inner-append", fmt.Sprintf("%s[%d].append(%s)", n, r.Intn(2), g.val()))
	case 2:
		return st("nested.inner-setitem", fmt.Sprintf("%s[%d][0] = %s", n, r.Intn(2), g.val()))
	case 3:
		return st("nested.rebind-slot", fmt.Sprintf("%s[%d] = [%s]", n, r.Intn(2), g.val()))
	case 4:
		if z == ni {
			return ContOp{}, false
		}
		g.typ[z] = "nested"
		return st("nested.copy."+[]string{"ctor", "slice", "addempty"}[z%3], fmt.Sprintf("%s = %s", a(z), []string{"list(" + n + ")", n + "[:]", n + " + []"}[z%3]))
	case 5:
		if z == ni {
			return ContOp{}, false
		}
		g.typ[z] = "nested"
		return st("nested.mul", fmt.Sprintf("%s = %s * 2", a(z), n))
	case 6:
		if !okx {
			return ContOp{}, false
		}
		return ex("nested.contains", fmt.Sprintf("(%s in %s, [%s] in %s)", a(xi), n, g.val(), n))
	case 7:
		mi, _ := g.of("nested")
		return ex("nested.eq", fmt.Sprintf("(%s == %s, %s is %s, %s[0] is %s[0])", n, a(mi), n, a(mi), n, a(mi)))
	case 8:
		if !okx {
			return ContOp{}, false
		}
		return st("nested.append-alias", fmt.Sprintf("%s.append(%s)", n, a(xi)))
	case 9:
		return st("nested.inner-iadd", fmt.Sprintf("%s[0] += [%s]", n, g.val()))
	case 10:
		return st("nested.del-slot", fmt.Sprintf("del %s[0]", n))
	default:
		return ex("nested.len", fmt.Sprintf("(len(%s), [len(_e) for _e in %s])", n, n))
	}
}

// scriptedOp: multi-step patterns whose steps must come in one particular
// order (rare under independent random choice), each as one operation.
func (g *cgen) scriptedOp() (ContOp, bool) {
	r := g.r
	xi, ok := g.of("list")
	if !ok {
		return ContOp{}, false
	}
	x := a(xi)
	z := r.Intn(nAlias)
	if z == xi {
		return ContOp{}, false
	}
	v := g.val()
	switch r.Intn(7) {
	case 0:
		// an exhausted iterator stays exhausted although the list grows afterwards
		return st("script.iter-exhaust-then-grow", fmt.Sprintf("it0 = iter(%s)\nfor _v in it0:\n    pass\n%s.append(%s)\nlog(\"after\", next(it0, \"done\"), next(it0, \"done\"))", x, x, v))
	case 1:
		// a half-consumed iterator sees later growth and shrinking
		return st("script.iter-half-then-mutate", fmt.Sprintf("it1 = iter(%s)\n_first = next(it1, \"empty\")\n%s.append(%s)\ndel %s[0]\nlog(\"rest\", _first, list(it1))", x, x, v, x))
	case 2:
		// a list that has spare capacity (grown by append) used as left operand of +
		g.typ[z] = "list"
		return st("script.append-then-add", fmt.Sprintf("%s.append(%s)\n%s = %s + [%s]\n%s.append(77)\n%s[0:1] = [88]", x, v, a(z), x, v, x, a(z)))
	case 3:
		// ... and with an empty right operand, then written in place
		g.typ[z] = "list"
		return st("script.add-empty-then-write", fmt.Sprintf("%s.append(%s)\n%s = %s + []\n%s.sort()\n%s.append(66)", x, v, a(z), x, a(z), x))
	case 4:
		// a list shrunk by del (spare capacity), then copied by slice and extended
		g.typ[z] = "list"
		return st("script.del-then-slice-copy", fmt.Sprintf("%s.extend([5, 6, 7])\ndel %s[0]\n%s = %s[:]\n%s.append(%s)\n%s.append(55)", x, x, a(z), x, a(z), v, x))
	case 5:
		// multiplication then in-place change of the product
		g.typ[z] = "list"
		return st("script.mul-then-write", fmt.Sprintf("%s = %s * 2\n%s.append(%s)\n%s += [44]", a(z), x, a(z), v, x))
	default:
		// += through one alias while another alias is being iterated
		return st("script.iadd-while-iterating", fmt.Sprintf("_n = 0\nfor _v in %s:\n    _n += 1\n    if _n == 1:\n        %s += [%s]\n    if _n > 20:\n        break\nlog(\"n\", _n)", x, x, v))
	}
}

// failOp: operations that fail half way (the operand raises after yielding
// some items, the key function raises at its k-th call, an index or key is
// absent): what the container looks like afterwards is part of the history.
func (g *cgen) failOp() (ContOp, bool) {
	r := g.r
	k := r.Intn(4)
	gen := fmt.Sprintf("_fg(%d)", k)
	switch r.Intn(10) {
	case 0, 1, 2, 3:
		xi, ok := g.of("list")
		if !ok {
			return ContOp{}, false
		}
		x := a(xi)
		switch r.Intn(8) {
		case 6:
			return st("fail.list.sort-reverse-truth", fmt.Sprintf("try:\n    %s.sort(reverse=_BadTruth())\n    log(\"no error\")\nexcept Exception:\n    pass", x)) // (which exception class: an argument-type question, not a container one)
		case 7:
			return st("fail.list.sort-key-uncallable", fmt.Sprintf("%s.sort(key=5)", x))
		case 0:
			return st("fail.list.extend", fmt.Sprintf("%s.extend(%s)", x, gen))
		case 1:
			return st("fail.list.iadd", fmt.Sprintf("%s += %s", x, gen))
		case 2:
			return st("fail.list.setslice", fmt.Sprintf("%s[1:2] = %s", x, gen))
		case 3:
			return st("fail.list.sort-key", fmt.Sprintf("_fk[0] = %d\n%s.sort(key=_fkey)", k, x))
		case 4:
			return st("fail.list.setslice.ext-size", fmt.Sprintf("%s[::2] = [1, 2, 3, 4, 5, 6, 7]", x))
		default:
			return st("fail.list.index", fmt.Sprintf("%s[%d] = 1", x, 300+k))
		}
	case 4, 5, 6:
		xi, ok := g.of("dict")
		if !ok {
			return ContOp{}, false
		}
		x := a(xi)
		switch r.Intn(3) {
		case 0:
			return st("fail.dict.update-pairs", fmt.Sprintf("%s.update(_fp(%d))", x, k))
		case 1:
			return st("fail.dict.update-bad-item", fmt.Sprintf("%s.update([(\"k0\", 1), 5])", x))
		default:
			return st("fail.dict.delitem", fmt.Sprintf("del %s[\"absent\"]", x))
		}
	default:
		xi, ok := g.of("set")
		if !ok {
			return ContOp{}, false
		}
		x := a(xi)
		if r.Chance(1, 2) {
			return st("fail.set.update", fmt.Sprintf("%s.update(%s)", x, gen))
		}
		return st("fail.set.update-second-arg", fmt.Sprintf("%s.update([50, 51], %s)", x, gen))
	}
}

// reentOp: the operand of an operation on a container is a generator which,
// while the operation consumes it, mutates that very container through an
// alias (re-entrancy: the operation is still in progress).  Only shapes whose
// outcome the reference implementation fixes are generated: plain slices
// (bounds resolved against the length at the start, clamped to the length
// after the operand has been read), extend / += (items appended one by one
// behind whatever the generator appended), dict.update from pairs, set.update.
func (g *cgen) reentOp() (ContOp, bool) {
	r := g.r
	how := r.Intn(5)
	k := r.Intn(3)
	switch r.Intn(10) {
	case 0, 1, 2, 3, 4, 5:
		xi, ok := g.of("list")
		if !ok {
			return ContOp{}, false
		}
		x := a(xi)
		gen := fmt.Sprintf("_mg(%s, %d, %d)", x, how, k)
		switch r.Intn(4) {
		case 0:
			return st("reent.list.setslice", fmt.Sprintf("%s[%s] = %s", x, g.slice(false), gen))
		case 1:
			return st("reent.list.setslice-neg", fmt.Sprintf("%s[%d:] = %s", x, -1-r.Intn(3), gen))
		case 2:
			return st("reent.list.extend", fmt.Sprintf("%s.extend(%s)", x, gen))
		default:
			return st("reent.list.iadd", fmt.Sprintf("%s += %s", x, gen))
		}
	case 6, 7:
		xi, ok := g.of("dict")
		if !ok {
			return ContOp{}, false
		}
		x := a(xi)
		return st("reent.dict.update", fmt.Sprintf("%s.update(_mp(%s, %d, %d))", x, x, how%3, k))
	default:
		xi, ok := g.of("set")
		if !ok {
			return ContOp{}, false
		}
		x := a(xi)
		return st("reent.set.update", fmt.Sprintf("%s.update(_ms(%s, %d))", x, x, k))
	}
}

// tupleOp: copies between lists and the two observed tuples t0/t1 (a tuple
// never changes, whatever is done to a list built from it or to the list it
// was built from).
func (g *cgen) tupleOp() (ContOp, bool) {
	r := g.r
	z := r.Intn(nAlias)
	t := fmt.Sprintf("t%d", r.Intn(2))
	v := g.val()
	switch r.Intn(8) {
	case 0:
		g.typ[z] = "list"
		return st("tuple.list-ctor", fmt.Sprintf("%s = list(%s)", a(z), t))
	case 1:
		g.typ[z] = "list"
		return st("tuple.sorted", fmt.Sprintf("%s = sorted(%s)", a(z), t))
	case 2:
		xi, ok := g.of("list")
		if !ok {
			return ContOp{}, false
		}
		return st("tuple.from-list", fmt.Sprintf("%s = tuple(%s)", t, a(xi)))
	case 3:
		g.typ[z] = "list"
		return st("tuple.list-then-write", fmt.Sprintf("%s = list(%s)\nif %s:\n    %s[0] = %s\n    %s.sort()", a(z), t, a(z), a(z), v, a(z)))
	case 4:
		g.typ[z] = "list"
		return st("tuple.list-then-del", fmt.Sprintf("%s = list(%s)\nif %s:\n    del %s[0]\n%s.append(%s)", a(z), t, a(z), a(z), a(z), v))
	case 5:
		// a constant tuple of a code object, copied on every call
		g.typ[z] = "list"
		return st("tuple.const-in-func", fmt.Sprintf("def _mk():\n    return list((4, 2, 9))\n%s = _mk()\n%s[%d] = %s\n%s.sort()\nlog(\"again\", _mk())", a(z), a(z), r.Intn(3), v, a(z)))
	case 6:
		g.typ[z] = "list"
		return st("tuple.slice-ctor", fmt.Sprintf("%s = list(%s[1:])\n%s.append(%s)", a(z), t, a(z), v))
	default:
		return ex("tuple.observe", fmt.Sprintf("(len(%s), list(%s), %s == tuple(list(%s)), sorted(%s))", t, t, t, t, t))
	}
}

func (g *cgen) op(mixed bool) (ContOp, bool) {
	r := g.r
	if r.Chance(1, 8) {
		return g.nestedOp()
	}
	if r.Chance(1, 8) {
		return g.scriptedOp()
	}
	if r.Chance(1, 10) {
		return g.tupleOp()
	}
	if r.Chance(1, 10) {
		return g.failOp()
	}
	if !g.excl["reent"] && r.Chance(1, 10) {
		return g.reentOp()
	}
	switch r.Intn(10) {
	case 0, 1, 2, 3, 4, 5:
		return g.listOp()
	case 6, 7:
		return g.dictOp()
	default:
		return g.setOp(mixed)
	}
}

func (g *cgen) listOp() (ContOp, bool) {
	r := g.r
	xi, ok := g.of("list")
	if !ok {
		return ContOp{}, false
	}
	x := a(xi)
	yi, _ := g.of("list")
	y := a(yi)
	z := r.Intn(nAlias)
	rebind := func(kind, expr string) (ContOp, bool) {
		g.typ[z] = "list"
		return st(kind, a(z)+" = "+expr)
	}
	src := func() (string, string) {
		switch r.Intn(6) {
		case 0:
			return g.intList(), "list"
		case 1:
			return "tuple(" + g.intList() + ")", "tuple"
		case 2:
			return "iter(" + g.intList() + ")", "iter"
		case 3:
			return "(v + 1 for v in " + g.intList() + ")", "genexp"
		case 4:
			return y, "alias"
		default:
			return x, "self"
		}
	}
	switch r.Intn(34) {
	case 0, 1:
		return st("list.setitem", fmt.Sprintf("%s[%s] = %s", x, g.idx(), g.val()))
	case 2, 3:
		s, k := src()
		return st("list.setslice."+k, fmt.Sprintf("%s[%s] = %s", x, g.slice(false), s))
	case 4:
		s, k := src()
		return st("list.setslice.ext."+k, fmt.Sprintf("%s[%s] = %s", x, g.slice(true), s))
	case 5:
		return st("list.delitem", fmt.Sprintf("del %s[%s]", x, g.idx()))
	case 6:
		return st("list.delslice", fmt.Sprintf("del %s[%s]", x, g.slice(false)))
	case 7:
		return st("list.delslice.ext", fmt.Sprintf("del %s[%s]", x, g.slice(true)))
	case 8, 9:
		return st("list.append", fmt.Sprintf("%s.append(%s)", x, g.val()))
	case 10, 11:
		s, k := src()
		return st("list.extend."+k, fmt.Sprintf("%s.extend(%s)", x, s))
	case 12:
		return st("list.sort", x+".sort()")
	case 13:
		return st("list.sort.reverse", x+".sort(reverse=True)")
	case 14:
		switch r.Intn(4) {
		case 0:
			return st("list.sort.key", x+".sort(key=lambda v: -v)")
		case 1:
			// equal keys: stability is visible
			return st("list.sort.key-stable", x+".sort(key=lambda v: v % 3)")
		case 2:
			return st("list.sort.key-stable-reverse", x+".sort(key=lambda v: v % 3, reverse=True)")
		default:
			g.typ[z] = "list"
			return st("list.sorted.key-stable", fmt.Sprintf("%s = sorted(%s, key=lambda v: v %% 2, reverse=%s)", a(z), x, []string{"True", "False"}[r.Intn(2)]))
		}
	case 15:
		switch r.Intn(3) {
		case 0:
			return st("list.sort.key-mutates", fmt.Sprintf("def _kf(v):\n    %s.append(9)\n    return v\n%s.sort(key=_kf)", x, x))
		case 1:
			return st("list.sort.key-reads", fmt.Sprintf("_seen = []\ndef _kf(v):\n    _seen.append(len(%s))\n    return v\n%s.sort(key=_kf)\nlog(\"seen\", _seen)", x, x))
		default:
			return st("list.sort.key-mutates-other", fmt.Sprintf("def _kf(v):\n    %s.append(9)\n    return -v\n%s.sort(key=_kf)", y, x))
		}
	case 16, 17:
		s, k := src()
		return st("list.iadd."+k, fmt.Sprintf("%s += %s", x, s))
	case 18:
		return st("list.imul", fmt.Sprintf("%s *= %d", x, r.Intn(4)))
	case 19:
		return rebind("list.add", x+" + "+y)
	case 20:
		return rebind("list.mul", fmt.Sprintf("%s * %d", x, r.Intn(3)))
	case 21:
		return ex("list.contains", g.val()+" in "+x)
	case 22:
		return ex("list.len", "len("+x+")")
	case 23:
		return ex("list.eq", fmt.Sprintf("(%s == %s, %s != %s, %s is %s)", x, y, x, y, x, y))
	case 24:
		return ex("list.getitem", fmt.Sprintf("%s[%s]", x, g.idx()))
	case 25:
		return ex("list.getslice", fmt.Sprintf("%s[%s]", x, g.slice(r.Chance(1, 2))))
	case 26:
		return rebind("list.copy."+[]string{"ctor", "slice", "addempty", "mul1", "sorted"}[z%5], []string{"list(" + x + ")", x + "[:]", x + " + []", x + " * 1", "sorted(" + x + ")"}[z%5])
	case 27:
		g.typ[z] = "list"
		return st("list.alias", a(z)+" = "+x)
	case 28, 29:
		return st("list.iter.new", fmt.Sprintf("it%d = iter(%s)", r.Intn(2), x))
	case 30, 31:
		return ex("list.iter.next", fmt.Sprintf("next(it%d)", r.Intn(2)))
	case 32:
		return st("list.for-mutate", fmt.Sprintf("_n = 0\nfor _v in %s:\n    _n += 1\n    if _n < 4 and _v %% 2 == 0:\n        %s.append(_v + 1)\n    if _n > 12:\n        break\nlog(\"n\", _n)", x, x))
	default:
		return st("list.for-delete", fmt.Sprintf("_acc = []\nfor _v in %s:\n    _acc.append(_v)\n    if len(%s) > 1 and _v %% 2 == 1:\n        del %s[0]\nlog(\"acc\", _acc)", x, x, x))
	}
}

func (g *cgen) dictOp() (ContOp, bool) {
	r := g.r
	xi, ok := g.of("dict")
	if !ok {
		return ContOp{}, false
	}
	x := a(xi)
	yi, _ := g.of("dict")
	y := a(yi)
	z := r.Intn(nAlias)
	switch r.Intn(18) {
	case 0, 1, 2:
		return st("dict.setitem", fmt.Sprintf("%s[%s] = %s", x, g.key(), g.val()))
	case 3:
		return st("dict.delitem", fmt.Sprintf("del %s[%s]", x, g.key()))
	case 4:
		return ex("dict.contains", g.key()+" in "+x)
	case 5:
		return ex("dict.len", "len("+x+")")
	case 6:
		return ex("dict.get", fmt.Sprintf("(%s.get(%s), %s.get(%s, -1))", x, g.key(), x, g.key()))
	case 7:
		return ex("dict.getitem", fmt.Sprintf("%s[%s]", x, g.key()))
	case 8:
		return ex("dict.views-sorted", fmt.Sprintf("(sorted(%s.keys()), sorted(%s.values()), sorted(%s))", x, x, x))
	case 9:
		return ex("dict.views-agree", fmt.Sprintf("(list(zip(%s.keys(), %s.values())) == [(_k, _v) for _k, _v in %s.items()], [%s[_k] for _k in %s] == list(%s.values()))", x, x, x, x, x, x))
	case 10:
		return ex("dict.eq", fmt.Sprintf("(%s == %s, %s != %s, %s is %s)", x, y, x, y, x, y))
	case 11:
		g.typ[z] = "dict"
		return st("dict.copy.ctor", a(z)+" = dict("+x+")")
	case 12:
		g.typ[z] = "dict"
		return st("dict.alias", a(z)+" = "+x)
	case 13:
		return st("dict.update|alias", fmt.Sprintf("%s.update(%s)", x, y))
	case 14:
		switch r.Intn(4) {
		case 0:
			return st("dict.update|literal", fmt.Sprintf("%s.update({%s: %s})", x, g.key(), g.val()))
		case 1:
			return st("dict.update|self", fmt.Sprintf("%s.update(%s)", x, x))
		case 2:
			return st("dict.update|pairs", fmt.Sprintf("%s.update([(%s, %s), (%s, %s)])", x, g.key(), g.val(), g.key(), g.val()))
		default:
			return st("dict.update|kwargs", fmt.Sprintf("%s.update(k%d=%s)", x, r.Intn(5), g.val()))
		}
	case 15:
		// the embedder calls a function through py.Call with this very dict as kwargs
		if r.Chance(1, 2) {
			return st("dict.hcall-mutates-kw", fmt.Sprintf("def _kwf(**kw):\n    kw[\"seen\"] = len(kw)\n    return sorted(kw.keys())\nlog(\"hcall\", hcall(_kwf, (), %s))", x))
		}
		if z == xi {
			return ContOp{}, false
		}
		g.typ[z] = "dict"
		return st("dict.hcall-returns-kw", fmt.Sprintf("def _kwr(**kw):\n    return kw\n%s = hcall(_kwr, (), %s)\n%s[\"ret\"] = 1", a(z), x, a(z)))
	case 16:
		return st("dict.for-overwrite", fmt.Sprintf("for _k in %s:\n    %s[_k] = %s[_k] + 10", x, x, x))
	default:
		return ex("dict.items-sorted", fmt.Sprintf("sorted([_k + \"=\" + str(_v) for _k, _v in %s.items()])", x))
	}
}

func (g *cgen) setOp(mixed bool) (ContOp, bool) {
	r := g.r
	xi, ok := g.of("set")
	if !ok {
		return ContOp{}, false
	}
	x := a(xi)
	yi, _ := g.of("set")
	y := a(yi)
	z := r.Intn(nAlias)
	switch r.Intn(15) {
	case 13, 14:
		// in-place operators change the object every alias refers to
		op := []string{"|=", "&=", "-=", "^="}[r.Intn(4)]
		if r.Chance(1, 4) {
			y = x
		}
		if r.Chance(1, 3) {
			return st("set.iop|literal", fmt.Sprintf("%s %s {%s, %s}", x, op, g.scalar(false), g.scalar(false)))
		}
		return st("set.iop", fmt.Sprintf("%s %s %s", x, op, y))
	case 0, 1, 2:
		return st("set.add", fmt.Sprintf("%s.add(%s)", x, g.scalar(mixed)))
	case 3:
		return ex("set.contains", g.scalar(mixed)+" in "+x)
	case 4:
		return ex("set.len", "len("+x+")")
	case 5:
		return ex("set.eq", fmt.Sprintf("(%s == %s, %s != %s, %s is %s)", x, y, x, y, x, y))
	case 6:
		g.typ[z] = "set"
		return st("set.copy.ctor", a(z)+" = set("+x+")")
	case 7:
		g.typ[z] = "set"
		return st("set.alias", a(z)+" = "+x)
	case 8:
		g.typ[z] = "set"
		op := []string{"|", "&", "-", "^"}[r.Intn(4)]
		if r.Chance(1, 4) {
			y = x // the same object on both sides
		}
		if r.Chance(1, 4) {
			// the result must be a new object: mutate it right away
			return st("set.binop-then-add", fmt.Sprintf("%s = %s %s %s\n%s.add(%s)", a(z), x, op, y, a(z), g.scalar(false)))
		}
		return st("set.binop", fmt.Sprintf("%s = %s %s %s", a(z), x, op, y))
	case 9:
		switch r.Intn(3) {
		case 0:
			return st("set.update|alias", fmt.Sprintf("%s.update(%s)", x, y))
		case 1:
			return st("set.update|self", fmt.Sprintf("%s.update(%s)", x, x))
		default:
			return st("set.update|iterables", fmt.Sprintf("%s.update([%s, %s], (%s,))", x, g.scalar(false), g.scalar(false), g.scalar(false)))
		}
	case 10:
		return ex("set.iter", fmt.Sprintf("len([_v for _v in %s])", x))
	case 11:
		g.typ[z] = "set"
		return st("set.from-list", fmt.Sprintf("%s = set([%s, %s, %s])", a(z), g.scalar(mixed), g.scalar(mixed), g.scalar(mixed)))
	default:
		return st("set.for-add-existing", fmt.Sprintf("for _v in list(%s):\n    %s.add(_v)", x, x))
	}
}

func (p *ContProg) Render() string {
	var b strings.Builder
	b.WriteString("from simlog import log, exc_name, hcall\nit0 = iter([])\nit1 = iter([])\n")
	b.WriteString("def _fg(k):\n    for _i in range(5):\n        if _i == k:\n            raise ValueError(\"P\")\n        yield 20 + _i\ndef _fp(k):\n    for _i in range(5):\n        if _i == k:\n            raise ValueError(\"P\")\n        yield (\"k%d\" % _i, 30 + _i)\nclass _BadTruth:\n    def __bool__(self):\n        raise ValueError(\"P\")\ndef _mg(x, how, k):\n    for _i in range(3):\n        if _i == k:\n            if how == 0:\n                x.append(90 + _i)\n            elif how == 1:\n                del x[0:1]\n            elif how == 2:\n                del x[:]\n            elif how == 3:\n                x += [80, 81]\n            else:\n                x[0:0] = [70]\n        yield 40 + _i\ndef _mp(d, how, k):\n    for _i in range(3):\n        if _i == k:\n            if how == 0:\n                d[\"k9\"] = 99\n            elif how == 1:\n                d.update({\"k8\": 98})\n            else:\n                d[\"k%d\" % _i] = 97\n        yield (\"k%d\" % _i, 60 + _i)\ndef _ms(s, k):\n    for _i in range(3):\n        if _i == k:\n            s.add(95)\n        yield 50 + _i\n_fk = [0]\ndef _fkey(v):\n    _fk[0] -= 1\n    if _fk[0] == 0:\n        raise ValueError(\"P\")\n    return -v\n")
	for i, e := range p.Init {
		fmt.Fprintf(&b, "a%d = %s\n", i, e)
	}
	b.WriteString("t0 = (3, 1, 2)\nt1 = (0, 5, 4, 5, 1)\n")
	names := make([]string, nAlias)
	for i := range names {
		names[i] = a(i)
	}
	names = append(names, "t0", "t1")
	dump := "log(\"D\", " + strings.Join(names, ", ") + ")\n"
	b.WriteString(dump)
	for i, op := range p.Ops {
		id := fmt.Sprintf("\"o%d\"", i)
		if op.Expr != "" {
			fmt.Fprintf(&b, "try:\n    log(%s, \"r\", %s)\nexcept Exception as _e:\n    log(%s, \"exc\", exc_name(_e))\n", id, op.Expr, id)
		} else {
			fmt.Fprintf(&b, "try:\n%s\n    log(%s, \"ok\")\nexcept Exception as _e:\n    log(%s, \"exc\", exc_name(_e))\n", indent(op.Stmt), id, id)
		}
		b.WriteString(dump)
	}
	return b.String()
}

func ShrinkCont(p *ContProg) []*ContProg {
	var out []*ContProg
	for i := range p.Ops {
		c := &ContProg{Init: p.Init}
		c.Ops = append(append([]ContOp(nil), p.Ops[:i]...), p.Ops[i+1:]...)
		out = append(out, c)
	}
	for i, e := range p.Init {
		if strings.HasPrefix(e, "[") && e != "[]" {
			c := &ContProg{Init: append([]string(nil), p.Init...), Ops: p.Ops}
			c.Init[i] = "[]"
			out = append(out, c)
		}
	}
	return out
}
