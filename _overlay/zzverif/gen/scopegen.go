// Package gen holds the seeded program generators shared by several engines.
package gen

import (
	"fmt"
	"strings"

	"github.com/go-python/gpython/simrt"
)

// ScopeProg is a generated scoping program as a tree, so that it can be
// shrunk structurally.
type ScopeProg struct {
	Root  *Scope            `json:"root"`
	Neg   string            `json:"neg,omitempty"`   // kind of forbidden declaration injected ("" = positive program)
	Names []string          `json:"names,omitempty"` // the name set (default a,b,c,d)
	Tags  map[string]string `json:"tags"`            // tag -> descriptor of the statement that logs it
	Bltn  string            `json:"bltn,omitempty"`  // one name of the set that the builtins module also binds (value "B:<name>")
	Pad   int               `json:"pad,omitempty"`   // padding: this many extra module-level names/constants and extra locals per function (index arithmetic beyond 255)
}

type Param struct {
	Name    string `json:"n"`
	Default string `json:"d,omitempty"` // "" none | "=name" name expression | constant tag
	KwOnly  bool   `json:"kw,omitempty"`
	Star    int    `json:"star,omitempty"` // 1: *name, 2: **name
}

type Scope struct {
	Kind   string  `json:"kind"` // module | func | class
	Name   string  `json:"name"`
	Params []Param `json:"params,omitempty"`
	Stmts  []*Stmt `json:"stmts"`
}

type Stmt struct {
	K    string `json:"k"` // global nonlocal bind use del aug def class lambda comp
	N    string `json:"n,omitempty"`
	N2   string `json:"n2,omitempty"`
	Tag  string `json:"t,omitempty"`
	Form string `json:"f,omitempty"`
	Sub  *Scope `json:"sub,omitempty"`
}

var scopeNames = []string{"a", "b", "c", "d"}

// Scale enlarges generated scenarios (histories, programs, module graphs); the
// thorough tier sets it to 2 for half of its runs.
var Scale = 1

type scopeGen struct {
	pad   bool
	bltn  string
	names []string
	r     *simrt.Rand
	n     int
	tags  map[string]string
}

func (g *scopeGen) tag(desc string) string {
	g.n++
	t := fmt.Sprintf("t%d", g.n)
	g.tags[t] = desc
	return t
}

// scopeInfo is what the generator knows about the enclosing scopes.
type scopeInfo struct {
	kind   string
	locals map[string]bool // names bound locally (incl. params), not declared global/nonlocal
	nonloc map[string]bool
	parent *scopeInfo
}

func (si *scopeInfo) enclosingFuncBinds(name string) bool {
	for p := si.parent; p != nil; p = p.parent {
		if p.kind != "func" {
			continue
		}
		if p.locals[name] || p.nonloc[name] {
			return true
		}
	}
	return false
}

// GenScope generates one scoping program.
func GenScope(r *simrt.Rand, maxDepth int) *ScopeProg {
	g := &scopeGen{r: r, tags: map[string]string{}, names: scopeNames}
	g.pad = r.Chance(1, 12)
	if r.Chance(1, 5) {
		// more names: more cell / free variable slots per scope
		g.names = []string{"a", "b", "c", "d", "e", "f_", "g_", "h_", "i_", "j_"}[:5+r.Intn(6)]
	}
	if r.Chance(1, 3) {
		// the last stop of every lookup: one name is also a builtin
		g.bltn = g.names[r.Intn(len(g.names))]
	}
	root := &Scope{Kind: "module", Name: "<module>"}
	si := &scopeInfo{kind: "module", locals: map[string]bool{}, nonloc: map[string]bool{}}
	g.fill(root, si, 0, maxDepth)
	p := &ScopeProg{Root: root, Tags: g.tags, Names: g.names}
	if g.pad {
		p.Pad = 257 + r.Intn(10)
	}
	p.Bltn = g.bltn
	if r.Chance(1, 6) {
		g.injectNegative(p)
	}
	return p
}

func (g *scopeGen) bindForm() string {
	if g.r.Chance(1, 2) {
		return ""
	}
	// "aug": an augmented assignment as (possibly the only) binding of the name
	return []string{"for", "except", "import", "defname", "classname", "tuple", "star", "with", "aug", "aug"}[g.r.Intn(10)]
}

func (g *scopeGen) pick() string { return g.names[g.r.Intn(len(g.names))] }

func (g *scopeGen) fill(sc *Scope, si *scopeInfo, depth, maxDepth int) {
	r := g.r
	// plan the role of every name in this scope
	globals := map[string]bool{}
	for _, p := range sc.Params {
		si.locals[p.Name] = true
	}
	for _, n := range g.names {
		if si.locals[n] {
			continue
		}
		switch x := r.Intn(10); {
		case x < 3:
			si.locals[n] = true
		case x == 3 && sc.Kind != "module":
			globals[n] = true
		case x == 4 && sc.Kind != "module" && si.enclosingFuncBinds(n):
			si.nonloc[n] = true
		}
	}
	for _, n := range g.names {
		if globals[n] {
			sc.Stmts = append(sc.Stmts, &Stmt{K: "global", N: n})
		}
		if si.nonloc[n] {
			sc.Stmts = append(sc.Stmts, &Stmt{K: "nonlocal", N: n})
		}
	}
	where := sc.Kind
	if si.parent != nil {
		where += "-in-" + si.parent.kind
	}
	role := func(n string) string {
		switch {
		case globals[n]:
			return "global"
		case si.nonloc[n]:
			return "nonlocal"
		case si.locals[n]:
			return "local"
		}
		return "free"
	}
	var body []*Stmt
	// every locally bound non-parameter name gets at least one binding
	isParam := map[string]bool{}
	for _, p := range sc.Params {
		isParam[p.Name] = true
	}
	for _, n := range g.names {
		if (si.locals[n] && !isParam[n]) || ((globals[n] || si.nonloc[n]) && r.Chance(2, 3)) {
			body = append(body, &Stmt{K: "bind", N: n, Form: g.bindForm(), Tag: g.tag("bind:" + where + ":" + role(n))})
		}
	}
	nstm := 2 + r.Intn(5)
	nested := 0
	for i := 0; i < nstm; i++ {
		n := g.pick()
		switch x := r.Intn(20); {
		case x == 4 && sc.Kind == "func" && r.Chance(1, 3) && role(n) == "free" && !si.enclosingFuncBinds(n):
			// a name that resolves to a global or builtin, read, then the module
			// namespace changes under the running frame (one global leaves, this
			// one arrives), read again in the same frame
			body = append(body, &Stmt{K: "gswap", N: n, Form: []string{"_scratch1", "_scratch2"}[r.Intn(2)], Tag: g.tag("gswap:" + where + ":" + role(n))})
		case x == 5 && sc.Kind == "class" && r.Chance(1, 2):
			// a name placed in the class namespace without a binding statement:
			// lookups in the class body find it there first
			body = append(body, &Stmt{K: "nsbind", N: n, Tag: g.tag("nsbind:" + where + ":" + role(n))})
		case x == 6 && r.Chance(1, 2):
			// the frame's namespace as the introspection builtins see it
			body = append(body, &Stmt{K: "introspect", N: n, Form: []string{"locals", "eval", "eval"}[r.Intn(3)], Tag: g.tag("introspect:" + where + ":" + role(n))})
		case x < 7:
			body = append(body, &Stmt{K: "use", N: n, Tag: g.tag("use:" + where + ":" + role(n))})
		case x < 9:
			if role(n) != "free" {
				body = append(body, &Stmt{K: "bind", N: n, Form: g.bindForm(), Tag: g.tag("bind:" + where + ":" + role(n))})
			} else {
				body = append(body, &Stmt{K: "use", N: n, Tag: g.tag("use:" + where + ":" + role(n))})
			}
		case x == 9 && r.Chance(1, 3) && sc.Kind == "func" && role(n) != "free" && role(n) != "global":
			// snapshot of the frame's namespace, del, snapshot again - with the name captured by a closure
			body = append(body, &Stmt{K: "snapdel", N: n, Tag: g.tag("snapdel:" + where + ":" + role(n))})
		case x == 9:
			if role(n) != "free" {
				body = append(body, &Stmt{K: "del", N: n, Tag: g.tag("del:" + where + ":" + role(n))})
			}
		case x == 10:
			if role(n) != "free" {
				body = append(body, &Stmt{K: "aug", N: n, Tag: g.tag("aug:" + where + ":" + role(n))})
			}
		case x < 15:
			if depth < maxDepth && nested < 3 && g.n < 36 {
				nested++
				sub := &Scope{Kind: "func", Name: fmt.Sprintf("f%d", g.n+1)}
				g.n++
				// exactly one required positional parameter
				p0 := "_x"
				if r.Chance(1, 2) {
					p0 = g.pick()
				}
				if sc.Kind == "class" {
					sub.Params = append(sub.Params, Param{Name: "self"})
				}
				sub.Params = append(sub.Params, Param{Name: p0})
				if r.Chance(1, 3) {
					pn := g.pick()
					if pn != p0 {
						d := g.tag("default:" + where)
						if r.Chance(1, 2) {
							d = "=" + g.pick()
						}
						sub.Params = append(sub.Params, Param{Name: pn, Default: d, KwOnly: r.Chance(1, 4)})
					}
				}
				// star parameters (often captured by the scopes nested below)
				for _, star := range []int{1, 2} {
					if r.Chance(1, 5) || (g.pad && r.Chance(1, 2)) {
						pn := g.pick()
						dup := false
						for _, q := range sub.Params {
							if q.Name == pn {
								dup = true
							}
						}
						if !dup {
							sub.Params = append(sub.Params, Param{Name: pn, Star: star})
						}
					}
				}
				ssi := &scopeInfo{kind: "func", locals: map[string]bool{}, nonloc: map[string]bool{}, parent: si}
				g.fill(sub, ssi, depth+1, maxDepth)
				body = append(body, &Stmt{K: "def", Sub: sub, Tag: g.tag("def:" + where)})
			}
		case x < 17:
			if depth < maxDepth && nested < 3 && g.n < 36 {
				nested++
				sub := &Scope{Kind: "class", Name: fmt.Sprintf("C%d", g.n+1)}
				g.n++
				ssi := &scopeInfo{kind: "class", locals: map[string]bool{}, nonloc: map[string]bool{}, parent: si}
				g.fill(sub, ssi, depth+1, maxDepth)
				body = append(body, &Stmt{K: "class", Sub: sub, Tag: g.tag("class:" + where)})
			}
		case x == 17:
			body = append(body, &Stmt{K: "lambda", N: n, N2: g.pick(), Form: []string{"plain", "default", "nested", "kwonly", "kwonlycomp"}[r.Intn(5)], Tag: g.tag("lambda:" + where + ":" + role(n))})
		default:
			body = append(body, &Stmt{K: "comp", N: n, N2: g.pick(), Form: []string{"list", "gen", "set", "dict", "nested", "lam"}[r.Intn(6)], Tag: g.tag("comp:" + where + ":" + role(n))})
		}
	}
	// shuffle so that bindings may come after nested definitions and uses
	for i := len(body) - 1; i > 0; i-- {
		j := r.Intn(i + 1)
		body[i], body[j] = body[j], body[i]
	}
	sc.Stmts = append(sc.Stmts, body...)
}

// injectNegative adds exactly one declaration the language forbids.
func (g *scopeGen) injectNegative(p *ScopeProg) {
	r := g.r
	var funcs []*Scope
	var walk func(s *Scope)
	walk = func(s *Scope) {
		if s.Kind == "func" {
			funcs = append(funcs, s)
		}
		for _, st := range s.Stmts {
			if st.Sub != nil {
				walk(st.Sub)
			}
		}
	}
	walk(p.Root)
	kinds := []string{"nonlocal-module"}
	if len(funcs) > 0 {
		kinds = append(kinds, "nonlocal-unbound", "param-global", "dup-param", "use-before-global", "assign-before-global", "param-nonlocal", "global-and-nonlocal", "assign-before-nonlocal")
	}
	k := kinds[r.Intn(len(kinds))]
	p.Neg = k
	if k == "nonlocal-module" {
		p.Root.Stmts = append([]*Stmt{{K: "nonlocal", N: g.pick()}}, p.Root.Stmts...)
		return
	}
	f := funcs[r.Intn(len(funcs))]
	last := f.Params[len(f.Params)-1].Name
	switch k {
	case "nonlocal-unbound":
		f.Stmts = append([]*Stmt{{K: "nonlocal", N: "zz"}}, f.Stmts...)
	case "param-global":
		f.Stmts = append([]*Stmt{{K: "global", N: last}}, f.Stmts...)
	case "param-nonlocal":
		f.Stmts = append([]*Stmt{{K: "nonlocal", N: last}}, f.Stmts...)
	case "dup-param":
		f.Params = append(f.Params, Param{Name: last, Default: "dup"})
	case "use-before-global":
		f.Stmts = append([]*Stmt{{K: "use", N: "zz", Tag: g.tag("neg")}, {K: "global", N: "zz"}}, f.Stmts...)
	case "assign-before-global":
		f.Stmts = append([]*Stmt{{K: "bind", N: "zz", Tag: g.tag("neg")}, {K: "global", N: "zz"}}, f.Stmts...)
	case "assign-before-nonlocal":
		// zz bound in an enclosing function is needed for this to be *only* an ordering error;
		// whether or not it is, the program must be rejected.
		f.Stmts = append([]*Stmt{{K: "bind", N: "zz", Tag: g.tag("neg")}, {K: "nonlocal", N: "zz"}}, f.Stmts...)
	case "global-and-nonlocal":
		f.Stmts = append([]*Stmt{{K: "global", N: "zz"}, {K: "nonlocal", N: "zz"}}, f.Stmts...)
	}
}

// Render produces the Python source.
func (p *ScopeProg) nameSet() []string {
	if len(p.Names) > 0 {
		return p.Names
	}
	return scopeNames
}

func (p *ScopeProg) Render() string {
	var b strings.Builder
	renderNames = p.nameSet()
	renderPad = p.Pad
	defer func() { renderPad = 0 }()
	for i := 0; i < p.Pad; i++ {
		fmt.Fprintf(&b, "_p%d = \"p%d\"\n", i, i)
	}
	if p.Bltn != "" {
		fmt.Fprintf(&b, "import builtins\nbuiltins.%s = \"B:%s\"\ndel builtins\n", p.Bltn, p.Bltn)
	}
	b.WriteString("_scratch1 = 0\n_scratch2 = 0\n")
	b.WriteString("from simlog import log, exc_name\nK = []\nclass _CM:\n    def __init__(self, v):\n        self.v = v\n    def __enter__(self):\n        return self.v\n    def __exit__(self, *a):\n        return False\n")
	renderStmts(&b, p.Root, p.Root.Stmts, 0)
	b.WriteString("for _k in list(K):\n    try:\n        _k(\"kcall\")\n    except Exception as _e:\n        log(\"kcall\", exc_name(_e))\n")
	for _, n := range p.nameSet() {
		fmt.Fprintf(&b, "try:\n    log(\"final\", \"%s\", %s)\nexcept NameError as _e:\n    log(\"final\", \"%s\", exc_name(_e))\n", n, n, n)
	}
	return b.String()
}

// renderNames is set by Render for the class-attribute probes (single-threaded use).
var renderNames = scopeNames

// renderPad is set by Render (padding locals at the head of every function).
var renderPad = 0

func padLocals(n int) string {
	names := make([]string, n)
	for i := range names {
		names[i] = fmt.Sprintf("_q%d", i)
	}
	return "(" + strings.Join(names, ", ") + ") = range(" + fmt.Sprint(n) + ")"
}

func renderStmts(b *strings.Builder, sc *Scope, stmts []*Stmt, ind int) {
	pad := strings.Repeat("    ", ind)
	w := func(format string, args ...interface{}) {
		for _, line := range strings.Split(fmt.Sprintf(format, args...), "\n") {
			b.WriteString(pad)
			b.WriteString(line)
			b.WriteByte('\n')
		}
	}
	if len(stmts) == 0 {
		w("pass")
		return
	}
	for _, st := range stmts {
		switch st.K {
		case "global":
			w("global %s", st.N)
		case "nonlocal":
			w("nonlocal %s", st.N)
		case "bind":
			switch st.Form {
			case "for":
				w("for %s in (\"%s\",):\n    pass", st.N, st.Tag)
			case "except":
				// 'except E as n' binds n and deletes it at the end of the handler
				w("try:\n    raise ValueError(\"%s\")\nexcept ValueError as %s:\n    log(\"%s\", \"handler\", exc_name(%s))", st.Tag, st.N, st.Tag, st.N)
			case "import":
				// bound by the import statement only (logs as <module>)
				w("import simlog as %s", st.N)
			case "defname":
				w("def %s():\n    return \"%s\"\n%s = %s()", st.N, st.Tag, st.N, st.N)
			case "classname":
				w("class %s:\n    v = \"%s\"\n%s = %s.v", st.N, st.Tag, st.N, st.N)
			case "tuple":
				w("(%s, _u) = (\"%s\", 0)", st.N, st.Tag)
			case "star":
				w("%s, *_r = (\"%s\", 1, 2)", st.N, st.Tag)
			case "with":
				w("with _CM(\"%s\") as %s:\n    pass", st.Tag, st.N)
			case "aug":
				w("try:\n    %s += \"+%s\"\n    log(\"%s\", %s)\nexcept Exception as _e:\n    log(\"%s\", exc_name(_e))", st.N, st.Tag, st.Tag, st.N, st.Tag)
			default:
				w("%s = \"%s\"", st.N, st.Tag)
			}
		case "use":
			w("try:\n    log(\"%s\", %s)\nexcept NameError as _e:\n    log(\"%s\", exc_name(_e))", st.Tag, st.N, st.Tag)
		case "gswap":
			use := func(k string) {
				w("try:\n    log(\"%s\", \"%s\", %s)\nexcept NameError as _e:\n    log(\"%s\", \"%s\", exc_name(_e))", st.Tag, k, st.N, st.Tag, k)
			}
			use("before")
			w("def _sw():\n    global %s, %s\n    try:\n        del %s\n    except NameError:\n        pass\n    %s = \"%s\"\n_sw()", st.N, st.Form, st.Form, st.N, st.Tag)
			use("after")
		case "nsbind":
			w("locals()[\"%s\"] = \"%s\"", st.N, st.Tag)
		case "snapdel":
			snap := func(k string) {
				w("try:\n    log(\"%s\", \"%s\", \"%s\" in locals(), eval(\"%s\"))\nexcept NameError as _e:\n    log(\"%s\", \"%s\", exc_name(_e))", st.Tag, k, st.N, st.N, st.Tag, k)
			}
			w("K.append(lambda *_a: %s)", st.N)
			snap("before")
			w("try:\n    del %s\n    log(\"%s\", \"deleted\")\nexcept NameError as _e:\n    log(\"%s\", exc_name(_e))", st.N, st.Tag, st.Tag)
			snap("after")
		case "introspect":
			if st.Form == "locals" {
				w("log(\"%s\", \"%s\" in locals())", st.Tag, st.N)
			} else {
				w("try:\n    log(\"%s\", eval(\"%s\"))\nexcept NameError as _e:\n    log(\"%s\", exc_name(_e))", st.Tag, st.N, st.Tag)
			}
		case "del":
			w("try:\n    del %s\n    log(\"%s\", \"deleted\")\nexcept NameError as _e:\n    log(\"%s\", exc_name(_e))", st.N, st.Tag, st.Tag)
		case "aug":
			w("try:\n    %s += \"+%s\"\n    log(\"%s\", %s)\nexcept Exception as _e:\n    log(\"%s\", exc_name(_e))", st.N, st.Tag, st.Tag, st.N, st.Tag)
		case "lambda":
			switch st.Form {
			case "default":
				w("try:\n    _h = lambda _q, %s=%s: (%s, %s)\n    log(\"%s\", _h(0))\nexcept Exception as _e:\n    log(\"%s\", exc_name(_e))", st.N, st.N2, st.N, st.N2, st.Tag, st.Tag)
			case "kwonly":
				w("try:\n    _h = lambda _q, *, %s=\"%sk\": (lambda: (%s, %s))()\n    log(\"%s\", _h(0), _h(0, %s=\"%sv\"))\nexcept Exception as _e:\n    log(\"%s\", exc_name(_e))", st.N, st.Tag, st.N, st.N2, st.Tag, st.N, st.Tag, st.Tag)
			case "kwonlycomp":
				w("try:\n    _h = lambda _q, *_r, %s=\"%sk\", **_kw: [(%s, _j) for _j in _r]\n    log(\"%s\", _h(0, 1, 2), _h(0, 3, %s=\"%sv\"))\nexcept Exception as _e:\n    log(\"%s\", exc_name(_e))", st.N, st.Tag, st.N, st.Tag, st.N, st.Tag, st.Tag)
			case "nested":
				w("try:\n    _h = lambda _q: (lambda: (%s, %s))()\n    log(\"%s\", _h(0))\nexcept Exception as _e:\n    log(\"%s\", exc_name(_e))", st.N, st.N2, st.Tag, st.Tag)
			default:
				w("try:\n    _h = lambda _q: (%s, %s)\n    log(\"%s\", _h(0))\nexcept Exception as _e:\n    log(\"%s\", exc_name(_e))", st.N, st.N2, st.Tag, st.Tag)
			}
			w("K.append(_h)")
		case "comp":
			var e string
			switch st.Form {
			case "list":
				e = fmt.Sprintf("[(%s, %s) for %s in (\"%sx\", \"%sy\")]", st.N, st.N2, st.N, st.Tag, st.Tag)
			case "gen":
				e = fmt.Sprintf("list((%s, %s) for %s in (\"%sx\", \"%sy\"))", st.N, st.N2, st.N, st.Tag, st.Tag)
			case "set":
				e = fmt.Sprintf("({%s for %s in (\"%sx\", \"%sy\")}, %s)", st.N, st.N, st.Tag, st.Tag, st.N2)
			case "dict":
				e = fmt.Sprintf("{%s: %s for %s in (\"%sx\", \"%sy\")}", st.N, st.N2, st.N, st.Tag, st.Tag)
			case "nested":
				e = fmt.Sprintf("[[(%s, %s, _j) for %s in (\"%sx\",)] for _j in (%s,)]", st.N, st.N2, st.N, st.Tag, st.N2)
			default:
				e = fmt.Sprintf("[_g() for _g in [lambda: (%s, %s) for %s in (\"%sx\", \"%sy\")]]", st.N, st.N2, st.N, st.Tag, st.Tag)
			}
			w("try:\n    log(\"%s\", %s)\nexcept Exception as _e:\n    log(\"%s\", exc_name(_e))", st.Tag, e, st.Tag)
		case "def":
			sub := st.Sub
			var ps []string
			one := func(p Param) string {
				s := p.Name
				if p.Default != "" {
					if strings.HasPrefix(p.Default, "=") {
						s += "=" + p.Default[1:]
					} else {
						s += "=\"" + p.Default + "\""
					}
				}
				return s
			}
			// order: positional, padding, *name (or a bare * before keyword-only ones), keyword-only, **name
			var kwonly []string
			star1, star2 := "", ""
			for _, p := range sub.Params {
				switch {
				case p.Star == 1:
					star1 = "*" + p.Name
				case p.Star == 2:
					star2 = "**" + p.Name
				case p.KwOnly:
					kwonly = append(kwonly, one(p))
				default:
					ps = append(ps, one(p))
				}
			}
			if renderPad > 0 {
				for i := 0; i < 60; i++ {
					ps = append(ps, fmt.Sprintf("_a%d=0", i))
				}
			}
			if star1 != "" {
				ps = append(ps, star1)
			} else if len(kwonly) > 0 {
				ps = append(ps, "*")
			}
			ps = append(ps, kwonly...)
			if star2 != "" {
				ps = append(ps, star2)
			}
			w("try:\n    def %s(%s):", sub.Name, strings.Join(ps, ", "))
			if renderPad > 0 {
				// the padding locals; six of them captured (cells), so that cells x arguments is large
				fmt.Fprintf(b, "%s%s\n%s_qc = lambda: (_q0, _q1, _q2, _q3, _q4, _q5)\n", strings.Repeat("    ", ind+2), padLocals(renderPad), strings.Repeat("    ", ind+2))
			}
			renderStmts(b, sub, sub.Stmts, ind+2)
			w("except Exception as _e:\n    log(\"%s\", \"def\", exc_name(_e))", st.Tag)
			if sc.Kind != "class" {
				w("try:\n    K.append(%s)\n    %s(\"%s\")\nexcept Exception as _e:\n    log(\"%s\", \"call\", exc_name(_e))", sub.Name, sub.Name, st.Tag, st.Tag)
			}
		case "class":
			sub := st.Sub
			w("try:\n    class %s:", sub.Name)
			renderStmts(b, sub, sub.Stmts, ind+2)
			w("except Exception as _e:\n    log(\"%s\", \"class\", exc_name(_e))", st.Tag)
			for _, ms := range sub.Stmts {
				if ms.K == "def" {
					w("try:\n    _o = %s()\n    K.append(_o.%s)\n    _o.%s(\"%s\")\nexcept Exception as _e:\n    log(\"%s\", \"mcall\", exc_name(_e))", sub.Name, ms.Sub.Name, ms.Sub.Name, ms.Tag, ms.Tag)
				}
			}
			// class attributes are visible as attributes, not as names
			for _, n := range renderNames {
				w("try:\n    log(\"%s\", \"attr\", \"%s\", %s.%s)\nexcept Exception as _e:\n    log(\"%s\", \"attr\", \"%s\", exc_name(_e))", st.Tag, n, sub.Name, n, st.Tag, n)
			}
		}
	}
}

// ShrinkScope proposes smaller programs: drop one statement (with its
// subtree) anywhere in the tree.
func ShrinkScope(p *ScopeProg) []*ScopeProg {
	var out []*ScopeProg
	var paths [][]int
	var walk func(s *Scope, path []int)
	walk = func(s *Scope, path []int) {
		for i, st := range s.Stmts {
			pp := append(append([]int(nil), path...), i)
			paths = append(paths, pp)
			if st.Sub != nil {
				walk(st.Sub, pp)
			}
		}
	}
	walk(p.Root, nil)
	for _, path := range paths {
		c := cloneScopeProg(p)
		s := c.Root
		for _, i := range path[:len(path)-1] {
			s = s.Stmts[i].Sub
		}
		i := path[len(path)-1]
		s.Stmts = append(s.Stmts[:i:i], s.Stmts[i+1:]...)
		out = append(out, c)
	}
	return out
}

func cloneScopeProg(p *ScopeProg) *ScopeProg {
	c := &ScopeProg{Neg: p.Neg, Tags: p.Tags, Names: p.Names}
	c.Root = cloneScope(p.Root)
	return c
}

func cloneScope(s *Scope) *Scope {
	c := &Scope{Kind: s.Kind, Name: s.Name, Params: append([]Param(nil), s.Params...)}
	for _, st := range s.Stmts {
		n := *st
		if st.Sub != nil {
			n.Sub = cloneScope(st.Sub)
		}
		c.Stmts = append(c.Stmts, &n)
	}
	return c
}
