package gen

import (
	"fmt"
	"strings"

	"github.com/go-python/gpython/simrt"
)

// IterProg is a history over several live generators / iterators: the
// simulator plays the caller (which suspended generator is resumed next, with
// what) and the faulty producer (which item raises what).
type IterProg struct {
	Prods []IterProd `json:"prods"`
	Ops   []IterOp   `json:"ops"`
}

type IterProd struct {
	Kind string `json:"kind"` // gen iter seq deleg map filter genexp list range tuple str zipl enum chain
	Tag  int    `json:"tag"`
	N    int    `json:"n"`
	Fail int    `json:"fail"`           // item index at which the producer raises (-1: never)
	Exc  string `json:"exc"`            // expression raised at Fail
	Stop string `json:"stop"`           // iter/seq: expression raised at the end
	Sub  int    `json:"sub"`            // index of the wrapped producer (deleg map filter genexp zipl enum)
	Sub2 int    `json:"sub2"`           // second wrapped producer (zip2 map2); -1 otherwise
	Body string `json:"body,omitempty"` // genrand: text of the generator function gr<Tag> (GenBody)
}

type IterOp struct {
	K    string `json:"k"` // new next send use probe
	G    int    `json:"g"` // producer index
	V    int    `json:"v,omitempty"`
	Cons string `json:"c,omitempty"`
}

var IterExcs = []string{"ValueError", "ValueError(\"P:v\")", "KeyError(\"P:k\")", "ZeroDivisionError", "TypeError(\"P:t\")", "IndexError", "TypeError", "AttributeError(\"P:a\")"}
var IterStops = []string{"StopIteration", "StopIteration()", "StopIteration(77)"}

var IterConsumers = []string{
	"for", "listcomp", "setcomp", "dictcomp", "genexp", "unpack", "starred", "starcall",
	"list", "tuple", "set", "sum", "min", "max", "sorted", "zipl", "zipr", "map", "filter", "enumerate", "any", "all", "in", "notin", "join",
	"forbreak", "nestedfor", "listiter", "whilenext", "nextdefault", "sortedkey", "minkey", "maxkey", "sortedrev", "sumstart", "unpacknested", "forunpack", "listofgen", "anygen", "chainfor", "extend", "iadd", "sliceassign", "minkeyfail", "maxkeyfail", "sortedkeyfail", "starmany", "starmanyshort", "filterbadtruth", "anybadtruth", "allbadtruth", "ifbadtruth",
}

var iterWrappers = []string{"deleg", "map", "filter", "genexp", "zipl", "enum", "deleg", "zip2", "map2"}
var iterLeaves = []string{"gen", "gen", "gen", "iter", "iter", "seq", "list", "range", "tuple", "genfin", "genleak", "coro", "lenseq", "callit", "genrand", "genrand", "genrand"}

// IterExclude lists features that must not be generated (known findings).
type IterExclude map[string]bool

// genPipeline: a leaf that understands send() behind one or two yield-from
// delegators, driven by interleaved next / send on the outermost (and
// sometimes directly on an inner) object.
func genPipeline(r *simrt.Rand) *IterProg {
	p := &IterProg{}
	leaf := IterProd{Kind: []string{"gen", "coro", "genfin", "coro"}[r.Intn(4)], Tag: 1, N: 1 + r.Intn(5), Fail: -1, Sub: -1, Sub2: -1, Stop: "StopIteration"}
	if leaf.Kind != "coro" && r.Chance(1, 4) {
		leaf.Fail = r.Intn(4)
		leaf.Exc = IterExcs[r.Intn(len(IterExcs))]
	}
	if r.Chance(1, 3) {
		leaf.Kind, leaf.Fail, leaf.Exc = "genrand", -1, ""
		withRaise := r.Chance(1, 4)
		if withRaise {
			leaf.Exc = IterExcs[r.Intn(len(IterExcs))]
		}
		leaf.Body = GenBody(simrt.NewRand(r.Uint64()), leaf.Tag, withRaise)
	}
	p.Prods = append(p.Prods, leaf)
	p.Ops = append(p.Ops, IterOp{K: "new", G: 0})
	depth := 1 + r.Intn(2)
	for d := 0; d < depth; d++ {
		p.Prods = append(p.Prods, IterProd{Kind: "deleg", Tag: d + 2, Fail: -1, Sub: d, Sub2: -1, Stop: "StopIteration"})
		p.Ops = append(p.Ops, IterOp{K: "new", G: d + 1})
	}
	top := len(p.Prods) - 1
	n := 3 + r.Intn(8)
	for i := 0; i < n; i++ {
		g := top
		if r.Chance(1, 6) {
			g = r.Intn(len(p.Prods))
		}
		if r.Chance(1, 2) {
			p.Ops = append(p.Ops, IterOp{K: "send", G: g, V: 1000 + i})
		} else {
			p.Ops = append(p.Ops, IterOp{K: "next", G: g})
		}
	}
	if r.Chance(1, 3) {
		p.Ops = append(p.Ops, IterOp{K: "use", G: top, Cons: "list"})
	}
	for g := range p.Prods {
		p.Ops = append(p.Ops, IterOp{K: "probe", G: g})
	}
	return p
}

func GenIter(r *simrt.Rand, excl IterExclude) *IterProg {
	if !excl["send"] && !excl["prod:deleg"] && r.Chance(1, 8) {
		return genPipeline(r)
	}
	p := &IterProg{}
	nops := 3 + r.Intn(10*Scale)
	pickFrom := func(list []string, prefix string) string {
		for tries := 0; tries < 20; tries++ {
			x := list[r.Intn(len(list))]
			if !excl[prefix+x] {
				return x
			}
		}
		return ""
	}
	newProd := func() int {
		pr := IterProd{Tag: len(p.Prods) + 1, N: r.Intn(6), Fail: -1, Sub: -1, Sub2: -1}
		if r.Chance(1, 12) {
			pr.N = []int{7, 8, 9, 15, 16, 17, 31, 32, 33}[r.Intn(9)]
		}
		if len(p.Prods) > 0 && r.Chance(1, 3) {
			pr.Kind = pickFrom(iterWrappers, "prod:")
			pr.Sub = r.Intn(len(p.Prods))
			if p.Prods[pr.Sub].Kind == "genleak" {
				pr.Kind = ""
			}
			if pr.Kind == "zip2" || pr.Kind == "map2" {
				pr.Sub2 = r.Intn(len(p.Prods))
				if p.Prods[pr.Sub2].Kind == "genleak" || p.yieldsTuples(pr.Sub2) || p.yieldsTuples(pr.Sub) {
					pr.Kind, pr.Sub2 = "", -1
				}
			}
		}
		if pr.Kind == "" {
			pr.Kind = pickFrom(iterLeaves, "prod:")
			pr.Sub = -1
			if pr.Kind == "" {
				pr.Kind = "list"
			}
		}
		switch pr.Kind {
		case "gen", "genfin", "iter", "seq", "map", "filter", "genexp", "callit":
			if r.Chance(2, 5) {
				if e := pickFrom(IterExcs, "exc:"); e != "" && !excl["fail"] {
					pr.Fail = r.Intn(6)
					pr.Exc = e
				}
			}
		}
		if pr.Kind == "genrand" {
			withRaise := false
			if r.Chance(1, 3) {
				if e := pickFrom(IterExcs, "exc:"); e != "" && !excl["fail"] {
					pr.Exc, withRaise = e, true
				}
			}
			pr.Body = GenBody(simrt.NewRand(r.Uint64()), pr.Tag, withRaise)
		}
		pr.Stop = "StopIteration"
		if pr.Kind == "iter" || pr.Kind == "seq" {
			if s := pickFrom(IterStops, "stop:"); s != "" {
				pr.Stop = s
			}
		}
		p.Prods = append(p.Prods, pr)
		return len(p.Prods) - 1
	}
	for i := 0; i < nops; i++ {
		if len(p.Prods) == 0 || (len(p.Prods) < 4 && r.Chance(1, 4)) {
			g := newProd()
			p.Ops = append(p.Ops, IterOp{K: "new", G: g})
			continue
		}
		g := r.Intn(len(p.Prods))
		if p.Prods[g].Kind == "genleak" {
			// a StopIteration leaking out of a generator body ends the
			// generator in 3.4 and becomes RuntimeError after PEP 479: only
			// direct next() is compared, with the two classes folded
			p.Ops = append(p.Ops, IterOp{K: "next", G: g})
			continue
		}
		switch x := r.Intn(10); {
		case x < 4:
			p.Ops = append(p.Ops, IterOp{K: "next", G: g})
		case x < 5:
			if !excl["send"] && p.sendable(g) {
				p.Ops = append(p.Ops, IterOp{K: "send", G: g, V: 1000 + i})
			} else {
				p.Ops = append(p.Ops, IterOp{K: "next", G: g})
			}
		default:
			c := pickFrom(IterConsumers, "cons:")
			if c == "" {
				c = "list"
			}
			if p.yieldsTuples(g) {
				// sets of tuples and ordering of tuples are not provided by
				// this tree (outside C05): keep tuple streams away from them
				switch c {
				case "set", "setcomp", "sorted", "min", "max", "sum", "join", "filter", "map", "sortedkey", "sortedrev", "minkey", "maxkey", "sumstart", "forunpack", "listofgen", "anygen", "minkeyfail", "maxkeyfail", "sortedkeyfail":
					c = "list"
				}
			}
			p.Ops = append(p.Ops, IterOp{K: "use", G: g, Cons: c, V: r.Intn(6)})
		}
	}
	// exhausted stays exhausted: probe every producer at the end
	for g := range p.Prods {
		p.Ops = append(p.Ops, IterOp{K: "probe", G: g})
	}
	return p
}

func (p *IterProg) yieldsTuples(g int) bool {
	for i := 0; g >= 0 && i < 10; i++ {
		switch p.Prods[g].Kind {
		case "zipl", "enum", "zip2":
			return true
		case "deleg", "filter":
			g = p.Prods[g].Sub
		default:
			return false
		}
	}
	return false
}

// sendable: send() reaches a generator (through yield-from delegators only).
// Sending into an iterator without a send method is caller misuse whose
// exception class (AttributeError vs TypeError) the property does not fix.
func (p *IterProg) sendable(g int) bool {
	for i := 0; g >= 0 && i < 10; i++ {
		switch p.Prods[g].Kind {
		case "gen", "genfin", "coro", "genrand":
			return true
		case "deleg":
			g = p.Prods[g].Sub
		default:
			return false
		}
	}
	return false
}

const iterPrelude = `from simlog import log, exc_name
def sargs(e):
    if exc_name(e) == "StopIteration":
        return e.args
    # exceptions injected by a producer carry a marked payload: it must arrive unchanged
    a = e.args
    if len(a) == 1 and isinstance(a[0], str) and a[0][:2] == "P:":
        return a
    return None
class Coro:
    def __init__(self, tag, n):
        self.tag = tag
        self.i = 0
        self.n = n
    def __iter__(self):
        return self
    def __next__(self):
        return self.send(None)
    def send(self, v):
        log(self.tag, "csend", v)
        i = self.i
        self.i = i + 1
        if i >= self.n:
            raise StopIteration(self.tag * 100 + 96)
        return self.tag * 100 + i
class It:
    def __init__(self, tag, n, fail, exc, stop):
        self.tag = tag
        self.i = 0
        self.n = n
        self.fail = fail
        self.exc = exc
        self.stop = stop
    def __iter__(self):
        return self
    def __next__(self):
        i = self.i
        self.i = i + 1
        if i == self.fail:
            log(self.tag, "raise")
            raise self.exc
        if i >= self.n:
            log(self.tag, "stop")
            raise self.stop
        return self.tag * 100 + i
class Seq:
    def __init__(self, tag, n, fail, exc, stop):
        self.a = (tag, n, fail, exc, stop)
    def __iter__(self):
        log(self.a[0], "iter")
        return It(self.a[0], self.a[1], self.a[2], self.a[3], self.a[4])
class LenSeq:
    # __len__ is only a hint: consumers must still drive __iter__/__next__ to StopIteration
    def __init__(self, tag, n, claimed):
        self.a = (tag, n, claimed)
    def __len__(self):
        return self.a[2]
    def __iter__(self):
        return It(self.a[0], self.a[1], -1, None, StopIteration)
def gen(tag, n, fail, exc):
    log(tag, "start")
    try:
        i = 0
        while i < n:
            if i == fail:
                log(tag, "raise")
                raise exc
            got = yield tag * 100 + i
            if got is not None:
                log(tag, "got", got)
            i += 1
        if i == fail:
            log(tag, "raise")
            raise exc
    finally:
        log(tag, "fin")
    return retval(tag)
def retval(tag):
    # what a generator returns travels in StopIteration.args / as the yield-from value, whatever its shape
    k = tag % 6
    if k == 0:
        return (tag, "pair")
    if k == 1:
        return (tag,)
    if k == 2:
        return ()
    if k == 3:
        return [tag, (tag, tag)]
    if k == 4:
        return None
    return tag * 100 + 99
def genfin(tag, n, fail, exc):
    log(tag, "start")
    try:
        i = 0
        while i < n:
            if i == fail:
                log(tag, "raise")
                raise exc
            yield tag * 100 + i
            i += 1
        return tag * 100 + 98
    finally:
        log(tag, "fin1")
        yield tag * 100 + 77
        log(tag, "fin2")
def genleak(tag, n):
    src = iter(range(n))
    log(tag, "start")
    while True:
        a = next(src)
        yield tag * 100 + a
        log(tag, "resumed")
def mkcall(tag, n, fail, exc):
    st = [0]
    def call():
        i = st[0]
        st[0] = i + 1
        log(tag, "call", i)
        if i == fail:
            raise exc
        if i > n:
            i = n
        return tag * 100 + i
    return call
def add2(x, y):
    return x * 1000 + y
def deleg(tag, sub):
    log(tag, "dstart")
    try:
        r = yield from sub
        log(tag, "dres", r)
    finally:
        log(tag, "dfin")
    yield tag * 100 + 50
    return r
def mkfn(tag, fail, exc):
    st = [0]
    def fn(x):
        i = st[0]
        st[0] = i + 1
        if i == fail:
            log(tag, "fnraise")
            raise exc
        return x + 1
    return fn
def mkpred(tag, fail, exc):
    st = [0]
    def pred(x):
        i = st[0]
        st[0] = i + 1
        if i == fail:
            log(tag, "predraise")
            raise exc
        return x % 2 == 0
    return pred
def fargs(*a):
    return list(a)
class _BadTruth:
    def __bool__(self):
        raise ValueError("P:truth")
def _bt(k, normal=True):
    n = [0]
    def pred(x):
        n[0] += 1
        if n[0] == k + 1:
            return _BadTruth()
        return normal
    return pred
def _chain(a, n):
    for _v in a:
        yield _v
    for _i in range(n):
        yield 1000 + _i
def inc(x):
    return x + 1
def odd(x):
    return x % 2 == 1
`

func (p *IterProg) Render() string {
	var b strings.Builder
	b.WriteString(iterPrelude)
	hasBody := false
	for _, pr := range p.Prods {
		if pr.Body != "" {
			if !hasBody {
				b.WriteString(genBodyPrelude)
				hasBody = true
			}
			b.WriteString(pr.Body)
		}
	}
	for i, op := range p.Ops {
		id := fmt.Sprintf("\"o%d\"", i)
		g := fmt.Sprintf("g%d", op.G)
		w := func(body string) {
			fmt.Fprintf(&b, "try:\n%s\nexcept BaseException as _e:\n    log(%s, \"exc\", exc_name(_e), sargs(_e))\n", indent(body), id)
		}
		switch op.K {
		case "new":
			pr := p.Prods[op.G]
			exc := pr.Exc
			if exc == "" {
				exc = "None"
			}
			sub := fmt.Sprintf("g%d", pr.Sub)
			var e string
			switch pr.Kind {
			case "gen":
				e = fmt.Sprintf("gen(%d, %d, %d, %s)", pr.Tag, pr.N, pr.Fail, exc)
			case "genfin":
				e = fmt.Sprintf("genfin(%d, %d, %d, %s)", pr.Tag, pr.N, pr.Fail, exc)
			case "genrand":
				e = fmt.Sprintf("gr%d(%d, %s)", pr.Tag, pr.Tag, exc)
			case "genleak":
				e = fmt.Sprintf("genleak(%d, %d)", pr.Tag, pr.N)
			case "coro":
				e = fmt.Sprintf("Coro(%d, %d)", pr.Tag, pr.N)
			case "callit":
				e = fmt.Sprintf("iter(mkcall(%d, %d, %d, %s), %d)", pr.Tag, pr.N, pr.Fail, exc, pr.Tag*100+pr.N)
			case "zip2":
				e = fmt.Sprintf("zip(%s, g%d)", sub, pr.Sub2)
			case "map2":
				e = fmt.Sprintf("map(add2, %s, g%d)", sub, pr.Sub2)
			case "lenseq":
				claimed := pr.N - 2 + pr.Tag%5
				if claimed < 0 {
					claimed = 0
				}
				e = fmt.Sprintf("LenSeq(%d, %d, %d)", pr.Tag, pr.N, claimed)
			case "iter":
				e = fmt.Sprintf("It(%d, %d, %d, %s, %s)", pr.Tag, pr.N, pr.Fail, exc, pr.Stop)
			case "seq":
				e = fmt.Sprintf("Seq(%d, %d, %d, %s, %s)", pr.Tag, pr.N, pr.Fail, exc, pr.Stop)
			case "deleg":
				e = fmt.Sprintf("deleg(%d, %s)", pr.Tag, sub)
			case "map":
				e = fmt.Sprintf("map(mkfn(%d, %d, %s), %s)", pr.Tag, pr.Fail, exc, sub)
			case "filter":
				e = fmt.Sprintf("filter(mkpred(%d, %d, %s), %s)", pr.Tag, pr.Fail, exc, sub)
			case "genexp":
				e = fmt.Sprintf("(_f(_v) for _f in [mkfn(%d, %d, %s)] for _v in %s)", pr.Tag, pr.Fail, exc, sub)
			case "zipl":
				e = fmt.Sprintf("zip(%s, range(%d, %d))", sub, pr.Tag*100, pr.Tag*100+pr.N)
			case "enum":
				e = fmt.Sprintf("enumerate(%s)", sub)
			case "list":
				e = fmt.Sprintf("iter([%d + _i for _i in range(%d)])", pr.Tag*100, pr.N)
			case "range":
				e = fmt.Sprintf("iter(range(%d, %d))", pr.Tag*100, pr.Tag*100+pr.N)
			case "tuple":
				e = fmt.Sprintf("iter(tuple([%d + _i for _i in range(%d)]))", pr.Tag*100, pr.N)
			case "bytes":
				e = fmt.Sprintf("iter(b\"%s\")", "abcdefghijklmnopqrstuvwxyzABCDEFGH"[:pr.N])
			case "str":
				e = fmt.Sprintf("iter(\"%s\")", "abcdef"[:pr.N])
			}
			if pr.Kind == "genrand" {
				e += fmt.Sprintf("\n_selfs[\"t%d\"] = %s", pr.Tag, g)
			}
			w(fmt.Sprintf("%s = None\n%s = %s\nlog(%s, \"new\")", g, g, e, id))
		case "next":
			if p.Prods[op.G].Kind == "genleak" {
				fmt.Fprintf(&b, "try:\n    log(%s, \"next\", next(%s))\nexcept (StopIteration, RuntimeError):\n    log(%s, \"ended\")\n", id, g, id)
				break
			}
			w(fmt.Sprintf("log(%s, \"next\", next(%s))", id, g))
		case "send":
			w(fmt.Sprintf("log(%s, \"send\", %s.send(%d))", id, g, op.V))
		case "probe":
			if p.Prods[op.G].Kind == "genleak" {
				for k := 0; k < 3; k++ {
					fmt.Fprintf(&b, "try:\n    log(%s, \"probe\", next(%s))\nexcept (StopIteration, RuntimeError):\n    log(%s, \"ended\")\n", id, g, id)
				}
				break
			}
			w(fmt.Sprintf("log(%s, \"probe\", next(iter(%s)))", id, g))
			w(fmt.Sprintf("log(%s, \"probe2\", next(iter(%s)))", id, g))
		case "use":
			w(consumerBody(op.Cons, id, g, op.V, p.Prods[op.G].Tag))
		}
	}
	return b.String()
}

func indent(s string) string {
	lines := strings.Split(s, "\n")
	for i := range lines {
		lines[i] = "    " + lines[i]
	}
	return strings.Join(lines, "\n")
}

func consumerBody(c, id, g string, v, tag int) string {
	acc := func(loop string) string {
		return fmt.Sprintf("_acc = []\ntry:\n%s\nfinally:\n    log(%s, \"acc\", _acc)", indent(loop), id)
	}
	one := func(expr string) string { return fmt.Sprintf("log(%s, \"%s\", %s)", id, c, expr) }
	switch c {
	case "for":
		return acc(fmt.Sprintf("for _v in %s:\n    _acc.append(_v)\nelse:\n    _acc.append(\"else\")", g))
	case "forbreak":
		return acc(fmt.Sprintf("for _v in %s:\n    _acc.append(_v)\n    if len(_acc) > %d:\n        break\nelse:\n    _acc.append(\"else\")", g, v%3))
	case "nestedfor":
		return acc(fmt.Sprintf("for _v in %s:\n    for _w in range(2):\n        _acc.append((_v, _w))", g))
	case "whilenext":
		return acc(fmt.Sprintf("_k = 0\nwhile _k < %d:\n    _acc.append(next(%s))\n    _k += 1", 1+v%3, g))
	case "listcomp":
		return one(fmt.Sprintf("[_v for _v in %s]", g))
	case "setcomp":
		return one(fmt.Sprintf("{_v for _v in %s}", g))
	case "dictcomp":
		return one(fmt.Sprintf("{str(_v): _v for _v in %s}", g))
	case "genexp":
		return one(fmt.Sprintf("list(_v for _v in %s)", g))
	case "unpack":
		names := []string{"_a"}
		for i := 0; i < v%4; i++ {
			names = append(names, fmt.Sprintf("_b%d", i))
		}
		return fmt.Sprintf("%s, = %s\nlog(%s, \"unpack\", [%s])", strings.Join(names, ", "), g, id, strings.Join(names, ", "))
	case "starred":
		if v%2 == 0 {
			return fmt.Sprintf("_a, *_r = %s\nlog(%s, \"starred\", _a, _r)", g, id)
		}
		return fmt.Sprintf("*_r, _a = %s\nlog(%s, \"starred\", _a, _r)", g, id)
	case "starmany", "starmanyshort":
		// starred unpacking with more than 255 targets after (or before) the star
		n := 256 + v%3
		names := make([]string, n)
		for i := range names {
			names[i] = fmt.Sprintf("_t%d", i)
		}
		src := g
		if c == "starmany" {
			src = fmt.Sprintf("_chain(%s, %d)", g, n+2)
		}
		lhs := "_a, *_r, " + strings.Join(names, ", ")
		if v%2 == 1 {
			lhs = strings.Join(names, ", ") + ", *_r, _a"
		}
		return fmt.Sprintf("%s = %s\nlog(%s, \"%s\", _a, _r, _t0, _t1, _t%d)", lhs, src, id, c, n-1)
	case "filterbadtruth":
		// the predicate succeeds, the truth test of what it returned raises
		return one(fmt.Sprintf("list(filter(_bt(%d), %s))", v%4, g))
	case "anybadtruth":
		// (the truth tests are made by any() / all() / filter() themselves - conditions evaluated
		// by the VM are another property's subject)
		return fmt.Sprintf("_p = _bt(%d, False)\nlog(%s, \"%s\", any(_p(_v) for _v in %s))", v%4, id, c, g)
	case "allbadtruth":
		return fmt.Sprintf("_p = _bt(%d)\nlog(%s, \"%s\", all(_p(_v) for _v in %s))", v%4, id, c, g)
	case "ifbadtruth":
		return fmt.Sprintf("_p = _bt(%d)\nlog(%s, \"%s\", list(filter(None, (_p(_v) for _v in %s))) == [])", v%4, id, c, g)
	case "starcall":
		return one(fmt.Sprintf("fargs(*%s)", g))
	case "list", "tuple", "set", "frozenset", "sum", "min", "max", "sorted", "any", "all":
		return one(fmt.Sprintf("%s(%s)", c, g))
	case "zipl":
		return one(fmt.Sprintf("list(zip(%s, range(%d)))", g, 1+v%4))
	case "zipr":
		return one(fmt.Sprintf("list(zip(range(%d), %s))", 1+v%4, g))
	case "map":
		return one(fmt.Sprintf("list(map(inc, %s))", g))
	case "filter":
		return one(fmt.Sprintf("list(filter(odd, %s))", g))
	case "enumerate":
		return one(fmt.Sprintf("list(enumerate(%s))", g))
	case "in":
		return one(fmt.Sprintf("%d in %s", tag*100+v, g))
	case "notin":
		return one(fmt.Sprintf("%d not in %s", tag*100+v, g))
	case "join":
		return one(fmt.Sprintf("\",\".join(map(str, %s))", g))
	case "minkeyfail", "maxkeyfail", "sortedkeyfail":
		// the key function raises at its (v%4)-th call: StopIteration or another error
		fn := map[string]string{"minkeyfail": "min", "maxkeyfail": "max", "sortedkeyfail": "sorted"}[c]
		exc := []string{"StopIteration", "StopIteration(\"P:s\")", "KeyError(\"P:k\")", "ValueError"}[v%4]
		return one(fmt.Sprintf("%s(%s, key=mkfn(%d, %d, %s))", fn, g, tag, v%4, exc))
	case "extend":
		return fmt.Sprintf("_l = [0]\n_l.extend(%s)\nlog(%s, \"extend\", _l)", g, id)
	case "iadd":
		return fmt.Sprintf("_l = [0]\n_l += %s\nlog(%s, \"iadd\", _l)", g, id)
	case "sliceassign":
		return fmt.Sprintf("_l = [0, 1, 2]\n_l[1:2] = %s\nlog(%s, \"sliceassign\", _l)", g, id)
	case "tupleadd":
		return one(fmt.Sprintf("(0,) + tuple(%s)", g))
	case "nextdefault":
		return fmt.Sprintf("log(%s, \"nextdefault\", next(%s, \"dflt\"), next(%s, None))", id, g, g)
	case "sortedkey":
		return one(fmt.Sprintf("sorted(%s, key=lambda _v: -_v)", g))
	case "sortedrev":
		return one(fmt.Sprintf("sorted(%s, reverse=True)", g))
	case "minkey":
		return one(fmt.Sprintf("min(%s, key=lambda _v: -_v)", g))
	case "maxkey":
		return one(fmt.Sprintf("max(%s, key=lambda _v: -_v)", g))
	case "sumstart":
		return one(fmt.Sprintf("sum(%s, 1000)", g))
	case "unpacknested":
		return fmt.Sprintf("(_a, _b), _c = zip(%s, %s), 5\nlog(%s, \"unpacknested\", _a, _b, _c)", g, g, id)
	case "forunpack":
		return acc(fmt.Sprintf("for _i, _v in enumerate(%s):\n    _acc.append(_i + _v)", g))
	case "listofgen":
		return one(fmt.Sprintf("[_w for _w in (_v + 1 for _v in %s) if _w %% 2]", g))
	case "anygen":
		return one(fmt.Sprintf("(any(_v %% 2 for _v in %s), all(_v > 0 for _v in %s))", g, g))
	case "chainfor":
		return acc(fmt.Sprintf("for _v in %s:\n    _acc.append(_v)\nfor _v in %s:\n    _acc.append(-_v)", g, g))
	case "listiter":
		return one(fmt.Sprintf("list(iter(%s))", g))
	case "dictfromzip":
		return one(fmt.Sprintf("sorted(dict(zip(map(str, %s), range(9))).items())", g))
	}
	return one(fmt.Sprintf("list(%s)", g))
}

// Features returns the feature strings of op i (consumer / producer kinds /
// exception kinds involved), used for violation signatures.
func (p *IterProg) Features(i int) (cons string, prods []string, excs []string) {
	op := p.Ops[i]
	cons = op.K
	if op.K == "use" {
		cons = op.Cons
	}
	seen := map[int]bool{}
	for g := op.G; g >= 0 && g < len(p.Prods) && !seen[g]; g = p.Prods[g].Sub {
		seen[g] = true
		pr := p.Prods[g]
		prods = append(prods, pr.Kind)
		if pr.Fail >= 0 {
			e := pr.Exc
			if j := strings.IndexByte(e, '('); j >= 0 {
				e = e[:j] + "()"
			}
			excs = append(excs, e)
		}
		if pr.Kind == "iter" || pr.Kind == "seq" {
			s := pr.Stop
			if strings.HasSuffix(s, "(77)") {
				s = "StopIteration(v)"
			}
			excs = append(excs, "stop:"+s)
		}
	}
	return
}

// ShrinkIter proposes smaller histories.
func ShrinkIter(p *IterProg) []*IterProg {
	var out []*IterProg
	clone := func() *IterProg {
		c := &IterProg{Prods: append([]IterProd(nil), p.Prods...), Ops: append([]IterOp(nil), p.Ops...)}
		return c
	}
	for i, op := range p.Ops {
		if op.K == "new" {
			continue
		}
		c := clone()
		c.Ops = append(c.Ops[:i], c.Ops[i+1:]...)
		out = append(out, c)
	}
	// drop a producer nobody wraps, with all its ops
	for g := range p.Prods {
		wrapped := false
		for _, pr := range p.Prods {
			if pr.Sub == g || pr.Sub2 == g {
				wrapped = true
			}
		}
		if wrapped || len(p.Prods) == 1 {
			continue
		}
		c := &IterProg{}
		remap := map[int]int{}
		for j, pr := range p.Prods {
			if j == g {
				continue
			}
			remap[j] = len(c.Prods)
			c.Prods = append(c.Prods, pr)
		}
		for j := range c.Prods {
			if c.Prods[j].Sub >= 0 {
				c.Prods[j].Sub = remap[c.Prods[j].Sub]
			}
			if c.Prods[j].Sub2 >= 0 {
				c.Prods[j].Sub2 = remap[c.Prods[j].Sub2]
			}
		}
		for _, op := range p.Ops {
			if op.G == g {
				continue
			}
			op.G = remap[op.G]
			c.Ops = append(c.Ops, op)
		}
		out = append(out, c)
	}
	for g, pr := range p.Prods {
		if pr.Fail >= 0 {
			c := clone()
			c.Prods[g].Fail = -1
			c.Prods[g].Exc = ""
			out = append(out, c)
		}
		if pr.N > 0 {
			c := clone()
			c.Prods[g].N--
			out = append(out, c)
		}
		if pr.Sub >= 0 && pr.Kind != "deleg" {
			c := clone()
			c.Prods[g].Kind = "deleg"
			out = append(out, c)
		}
	}
	return out
}
