package gen

import (
	"fmt"
	"strings"

	"github.com/go-python/gpython/simrt"
)

// LitFuzz builds one assignment of a string / bytes / number literal from
// fragments: escapes of every kind next to ASCII, Latin-1, BMP and astral
// characters and invalid UTF-8; number literals around the 63/64-bit and base
// boundaries.  Many of them are malformed.
func LitFuzz(r *simrt.Rand) string {
	if r.Chance(1, 3) {
		digits := []int{1, 7, 8, 15, 16, 17, 18, 19, 20, 21, 22, 63, 64, 65}[r.Intn(14)]
		first := []string{"1", "7", "8", "9", "f", "F", "0"}[r.Intn(7)]
		pre := []string{"0x", "0X", "0o", "0b", "", "0"}[r.Intn(6)]
		body := first + strings.Repeat([]string{"0", "f", "7", "1", "9"}[r.Intn(5)], digits-1)
		suf := []string{"", "", "j", "e5", ".5", "L", "_"}[r.Intn(7)]
		return "x = " + pre + body + suf + "\n"
	}
	frag := []string{`\x`, `\x4`, `\x41`, `\u`, `\u12`, `\u1234`, `\U`, `\U0001`, `\U0001F600`, `\N{`, `\N{DASH}`, `\0`, `\777`, `\8`, `\`, "\\\n",
		"a", "4", "z", "é", "Ā", "€", "\U0001F600", "\xff", "\xc3", "\xe2\x82", " ", "{", "}", "%", "\t"}
	q := []string{"'", `"`, "'''", `"""`}[r.Intn(4)]
	pre := []string{"", "", "b", "r", "rb", "u", "B", "br", "f"}[r.Intn(9)]
	n := 1 + r.Intn(6)
	body := ""
	for i := 0; i < n; i++ {
		body += frag[r.Intn(len(frag))]
	}
	return "s = " + pre + q + body + q + "\n"
}

// LitModule is a module of literal assignments.  With valid set every literal
// is well-formed (the module compiles); otherwise one malformed literal with a
// well-formed prefix sits at a seeded position (the module is rejected after
// part of it has been processed).
func LitModule(r *simrt.Rand, valid bool) string {
	var b strings.Builder
	n := 3 + r.Intn(8)
	bad := -1
	if !valid {
		bad = r.Intn(n)
	}
	for i := 0; i < n; i++ {
		if i == bad {
			pre := []string{"oops", "col1", "a b", "x", ""}[r.Intn(5)]
			switch r.Intn(7) {
			case 0:
				fmt.Fprintf(&b, "v%d = \"%s\\x4\"\n", i, pre)
			case 1:
				fmt.Fprintf(&b, "v%d = \"%s\\u12\"\n", i, pre)
			case 2:
				fmt.Fprintf(&b, "v%d = \"%s\\U0001F6\"\n", i, pre)
			case 3:
				fmt.Fprintf(&b, "v%d = b\"%s\\xz1\"\n", i, pre)
			case 4:
				fmt.Fprintf(&b, "v%d = 0x%s\n", i, []string{"", "g", "_"}[r.Intn(3)])
			case 5:
				fmt.Fprintf(&b, "v%d = 12345678901234567890123%s\n", i, []string{"a", "e", "_"}[r.Intn(3)])
			default:
				fmt.Fprintf(&b, "v%d = \"%s\\N{no such name}\"\n", i, pre)
			}
			continue
		}
		switch r.Intn(9) {
		case 0:
			digits := []int{1, 9, 12, 13, 16, 17, 18, 19, 20, 25, 40, 70}[r.Intn(12)]
			fmt.Fprintf(&b, "v%d = %s%s\n", i, []string{"1", "9", "7"}[r.Intn(3)], strings.Repeat(fmt.Sprint(r.Intn(10)), digits-1))
		case 1:
			digits := []int{1, 8, 11, 12, 13, 15, 16, 17, 20, 33}[r.Intn(10)]
			fmt.Fprintf(&b, "v%d = 0x%s%s\n", i, []string{"1", "7", "8", "f"}[r.Intn(4)], strings.Repeat([]string{"0", "f", "a", "5"}[r.Intn(4)], digits-1))
		case 2:
			fmt.Fprintf(&b, "v%d = 0o%s + 0b%s\n", i, strings.Repeat("7", 1+r.Intn(30)), strings.Repeat("1", 1+r.Intn(70)))
		case 3:
			fmt.Fprintf(&b, "v%d = %d.%de%d + %dj\n", i, r.Intn(100), r.Intn(1000), r.Intn(20), r.Intn(9))
		case 4:
			fmt.Fprintf(&b, "v%d = \"col%d\\tcol%d\\n\\x4%d\\u00e%d\"\n", i, r.Intn(9), r.Intn(9), r.Intn(10), r.Intn(10))
		case 5:
			fmt.Fprintf(&b, "v%d = b\"\\x0%d\\xff raw\\\\%d\"\n", i, r.Intn(10), r.Intn(9))
		case 6:
			fmt.Fprintf(&b, "v%d = r\"\\d+%d\" 'abc' \"\\U0001F60%d\"\n", i, r.Intn(9), r.Intn(10))
		case 7:
			fmt.Fprintf(&b, "v%d = '''line%d\nline\\t2\n'''\n", i, r.Intn(9))
		default:
			fmt.Fprintf(&b, "v%d = (\"k%d\", %d, -%d, %d.5, None, True)\n", i, r.Intn(5), r.Intn(300), r.Intn(300), r.Intn(10))
		}
	}
	return b.String()
}
