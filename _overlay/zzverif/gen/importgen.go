package gen

import (
	"fmt"
	"strings"

	"github.com/go-python/gpython/simrt"
)

// ImportProg is a module graph plus a main program that imports it.
type ImportProg struct {
	Mods  []ImportMod  `json:"mods"`
	Main  []ImportStmt `json:"main"`
	After []ImportStmt `json:"after"` // run in the same session after main, even if main raised
	Path  []string     `json:"path"`  // sys.path directories (lib0, lib1)
	// other directory entries named like a module, next to its source file:
	// "dir:lib0/m1" (a directory without __init__.py: not a package) or
	// "file:lib0/m1" (a file without extension): `import m1` still means m1.py
	Decoys []string    `json:"decoys,omitempty"`
	Late   []ImportMod `json:"late,omitempty"` // modules whose files appear only at run time (fs_add) or live in a directory that enters sys.path later
}

type ImportMod struct {
	Name string   `json:"name"`
	Dir  string   `json:"dir"`
	All  []string `json:"all,omitempty"` // __all__ (nil: none)
	// AllForm: how an EMPTY export list is written ("" none, "list" __all__ = [],
	// "tuple" __all__ = ()): a star import then binds nothing at all
	AllForm string       `json:"all_form,omitempty"`
	Body    []ImportStmt `json:"body"`
	// fault injected into the file (simfs): "", "eio-stat", "eio-read", "torn", "vanish"
	Fault string `json:"fault,omitempty"`
}

// Alias, when set on an "as"/"fromas" import, is the name bound (it may be the
// name of ANOTHER module: a global named like a module must not be mistaken
// for that module by a later import).
type ImportStmt struct {
	Alias string `json:"alias,omitempty"`
	K     string `json:"k"`           // imp mut read star-probe ident gomod code
	Form  string `json:"f,omitempty"` // plain as from fromas star
	M     string `json:"m,omitempty"` // target module
	N     string `json:"n,omitempty"` // name imported (from forms)
	V     int    `json:"v,omitempty"`
	Wrap  bool   `json:"w,omitempty"` // wrapped in try/except ImportError
	ID    int    `json:"id"`
}

func GenImport(r *simrt.Rand, faultsOK bool) *ImportProg {
	p := &ImportProg{Path: []string{"lib0"}}
	if r.Chance(1, 3) {
		p.Path = append(p.Path, "lib1")
	}
	nm := 1 + r.Intn(5+3*(Scale-1))
	if r.Chance(1, 12) {
		nm = 6 + r.Intn(20) // larger graphs: 6-25 modules (module tables beyond their initial sizes)
	}
	id := 0
	next := func() int { id++; return id }
	names := []string{}
	for i := 0; i < nm; i++ {
		names = append(names, fmt.Sprintf("m%d", i))
	}
	targets := append(append([]string(nil), names...), "nosuch1", "nosuch2")
	pickTarget := func() string {
		if r.Chance(1, 8) {
			return targets[len(names)+r.Intn(2)]
		}
		return names[r.Intn(len(names))]
	}
	impStmt := func(inModule bool) ImportStmt {
		s := ImportStmt{K: "imp", M: pickTarget(), Form: []string{"plain", "as", "from", "fromas", "star", "plain", "from", "func", "dunder", "from2", "starexec"}[r.Intn(11)], ID: next()}
		missing := strings.HasPrefix(s.M, "nosuch")
		switch s.Form {
		case "from", "fromas":
			s.N = []string{"x", "x", "val", "_p", "h", "missing_name"}[r.Intn(6)]
			if r.Chance(1, 5) {
				// a name that is (or is not) an attribute of m but also names a module
				s.N = append(append([]string(nil), names...), "sys", "math", "simlog")[r.Intn(len(names)+3)]
			}
			s.Wrap = true
		case "star":
			s.Wrap = missing || inModule
		case "func", "dunder", "from2", "starexec":
			s.Wrap = true
		default:
			s.Wrap = missing && inModule
		}
		if missing && !inModule {
			s.Wrap = r.Chance(2, 3)
		}
		if s.Form != "star" && !s.Wrap && r.Chance(1, 4) {
			s.Wrap = true
		}
		if s.Form == "func" || s.Form == "dunder" || s.Form == "from2" || s.Form == "starexec" {
			s.Wrap = true
		}
		if (s.Form == "as" || s.Form == "fromas") && r.Chance(1, 3) {
			s.Alias = targets[r.Intn(len(targets))]
		}
		return s
	}
	for i, n := range names {
		m := ImportMod{Name: n, Dir: "lib0"}
		if len(p.Path) > 1 && r.Chance(1, 3) {
			m.Dir = "lib1"
		}
		if r.Chance(1, 3) {
			all := []string{"x"}
			if r.Chance(1, 2) {
				all = append(all, "_p")
			}
			if r.Chance(1, 2) {
				all = append(all, "h")
			}
			if r.Chance(1, 5) {
				// __all__ names something the module does not define: the star
				// import fails (AttributeError) and must not leave that name bound
				k := r.Intn(len(all) + 1)
				all = append(all[:k], append([]string{"ghost"}, all[k:]...)...)
			}
			m.All = all
		} else if r.Chance(1, 8) {
			m.AllForm = []string{"list", "tuple"}[r.Intn(2)]
		}
		nb := r.Intn(5)
		for j := 0; j < nb; j++ {
			switch x := r.Intn(10); {
			case x < 6:
				m.Body = append(m.Body, impStmt(true))
			case x < 8 && r.Chance(1, 4):
				m.Body = append(m.Body, goStmt(r, 100*i+j, next()))
			case x < 8:
				m.Body = append(m.Body, ImportStmt{K: "mut", M: names[r.Intn(len(names))], V: 100*i + j, ID: next()})
			case x == 9 && r.Chance(1, 2):
				// the running program is the module __main__: a module imported
				// by it reaches the program's namespace through `import __main__`
				m.Body = append(m.Body, ImportStmt{K: "mainmod", V: 100*i + j, ID: next()})
			default:
				m.Body = append(m.Body, ImportStmt{K: "read", M: names[r.Intn(len(names))], ID: next()})
			}
		}
		p.Mods = append(p.Mods, m)
	}
	// a shadowed copy: same module name in the second directory
	if len(p.Path) > 1 && r.Chance(1, 2) {
		src := p.Mods[r.Intn(len(p.Mods))]
		other := "lib1"
		if src.Dir == "lib1" {
			other = "lib0"
		}
		p.Mods = append(p.Mods, ImportMod{Name: src.Name, Dir: other, Body: []ImportStmt{{K: "code", V: 999, ID: next()}}})
	}
	if r.Chance(1, 4) {
		used := map[string]bool{}
		for k := 0; k < 1+r.Intn(2); k++ {
			m := p.Mods[r.Intn(len(p.Mods))]
			kind := []string{"dir:", "file:"}[r.Intn(2)]
			if !used[m.Dir+"/"+m.Name] {
				used[m.Dir+"/"+m.Name] = true
				p.Decoys = append(p.Decoys, kind+m.Dir+"/"+m.Name)
			}
		}
	}
	if faultsOK && r.Chance(1, 5) {
		k := r.Intn(len(p.Mods))
		p.Mods[k].Fault = []string{"eio-stat", "eio-read", "torn", "vanish"}[r.Intn(4)]
	}
	nmain := 2 + r.Intn(8*Scale)
	for j := 0; j < nmain; j++ {
		switch x := r.Intn(12); {
		case x < 7:
			p.Main = append(p.Main, impStmt(false))
		case x < 8:
			p.Main = append(p.Main, ImportStmt{K: "mut", M: names[r.Intn(len(names))], V: 5000 + j, ID: next()})
		case x < 10:
			p.Main = append(p.Main, ImportStmt{K: "read", M: names[r.Intn(len(names))], ID: next()})
		case x < 11:
			p.Main = append(p.Main, ImportStmt{K: "ident", M: names[r.Intn(len(names))], ID: next()})
		case r.Chance(1, 2):
			p.Main = append(p.Main, goStmt(r, 5000+j, next()))
		default:
			p.Main = append(p.Main, ImportStmt{K: "gomod", M: []string{"math", "sys", "time"}[r.Intn(3)], ID: next()})
		}
	}
	// a module whose body raises AFTER it imported others: the importer catches
	// the exception; the modules it had imported stay imported (run once, keep
	// their state).  The failing module itself is imported by exactly one
	// statement (re-importing it re-executes it in CPython, which the property
	// does not speak about).
	if r.Chance(1, 4) {
		bad := ImportMod{Name: "badmod", Dir: "lib0"}
		nd := 1 + r.Intn(3)
		for k := 0; k < nd; k++ {
			dep := names[r.Intn(len(names))]
			bad.Body = append(bad.Body, ImportStmt{K: "imp", Form: "plain", M: dep, ID: next()})
			if r.Chance(1, 2) {
				bad.Body = append(bad.Body, ImportStmt{K: "mut", M: dep, V: 7000 + k, ID: next()})
			}
		}
		bad.Body = append(bad.Body, ImportStmt{K: "raise", ID: next()})
		p.Mods = append(p.Mods, bad)
		st := ImportStmt{K: "impbad", M: "badmod", ID: next()}
		pos := r.Intn(len(p.Main) + 1)
		p.Main = append(p.Main[:pos], append([]ImportStmt{st}, p.Main[pos:]...)...)
	}
	// the environment changes while the program runs: a module that was
	// missing appears (file created; or a sys.path entry replaced in place),
	// and a repeated import must then find it
	p.Path = append(p.Path, "libdummy")
	nl := r.Intn(3)
	for k := 0; k < nl; k++ {
		kind := []string{"late", "swap"}[r.Intn(2)]
		name := fmt.Sprintf("late%d", k)
		dir := "lib0"
		if kind == "swap" {
			dir = "libx"
		}
		p.Late = append(p.Late, ImportMod{Name: name, Dir: dir})
		st := ImportStmt{K: kind, M: name, ID: next()}
		pos := r.Intn(len(p.Main) + 1)
		p.Main = append(p.Main[:pos], append([]ImportStmt{st}, p.Main[pos:]...)...)
	}
	// afterwards: the context must still be fully usable
	p.After = append(p.After, ImportStmt{K: "code", V: 1, ID: next()})
	for _, n := range names {
		p.After = append(p.After, ImportStmt{K: "readany", M: n, ID: next()})
	}
	p.After = append(p.After, ImportStmt{K: "imp", Form: "plain", M: "nosuch3", Wrap: true, ID: next()})
	p.After = append(p.After, ImportStmt{K: "code", V: 2, ID: next()})
	return p
}

// Files renders the module files present from the start: relative path -> source.
func (p *ImportProg) Files() map[string]string {
	out := map[string]string{}
	for _, m := range p.Mods {
		out[m.Dir+"/"+m.Name+".py"] = p.renderMod(m)
	}
	for _, m := range p.Late {
		if m.Dir == "libx" { // exists from the start, but its directory is not on sys.path yet
			out[m.Dir+"/"+m.Name+".py"] = p.renderMod(m)
		}
	}
	return out
}

// LateFiles renders the files that appear when the program calls fs_add.
func (p *ImportProg) LateFiles() map[string]string {
	out := map[string]string{}
	for _, m := range p.Late {
		if m.Dir != "libx" {
			out[m.Dir+"/"+m.Name+".py"] = p.renderMod(m)
		}
	}
	return out
}

func (p *ImportProg) renderMod(m ImportMod) string {
	var b strings.Builder
	me := m.Dir + "/" + m.Name
	b.WriteString("from simlog import log, exc_name\n")
	fmt.Fprintf(&b, "log(\"exec\", \"%s\", __name__)\n", me)
	fmt.Fprintf(&b, "x = \"x-%s\"\n_p = \"p-%s\"\nh = \"h-%s\"\nval = 0\n", m.Name, m.Name, m.Name)
	if m.All == nil && m.AllForm != "" {
		fmt.Fprintf(&b, "__all__ = %s\n", map[string]string{"list": "[]", "tuple": "()"}[m.AllForm])
	}
	if m.All != nil {
		qs := make([]string, len(m.All))
		for i, a := range m.All {
			qs[i] = "\"" + a + "\""
		}
		fmt.Fprintf(&b, "__all__ = [%s]\n", strings.Join(qs, ", "))
	}
	for _, s := range m.Body {
		renderImportStmt(&b, s, me)
	}
	// a public name bound only at the very end of the body: a star import made
	// while this module is still being initialised (import cycle) must not see
	// it, a later one must
	fmt.Fprintf(&b, "tail = \"t-%s\"\n", m.Name)
	fmt.Fprintf(&b, "log(\"done\", \"%s\")\n", me)
	return b.String()
}

func (p *ImportProg) RenderMain() string {
	var b strings.Builder
	b.WriteString("from simlog import log, exc_name, libdir, fs_add\n_held = {}\nmk = 4711\n")
	for _, s := range p.Main {
		renderImportStmt(&b, s, "main")
	}
	for _, m := range p.Mods {
		for _, s := range m.Body {
			if s.K == "mainmod" {
				fmt.Fprintf(&b, "try:\n    log(\"main\", 0, \"seen\", %d, seen_%d)\nexcept NameError:\n    log(\"main\", 0, \"seen\", %d, \"unset\")\n", s.ID, s.ID, s.ID)
			}
		}
	}
	// a module object obtained early is THE module object: whatever was
	// imported in between, importing it again yields the very same object
	seen := map[string]bool{}
	for _, m := range p.Mods {
		if seen[m.Name] {
			continue
		}
		seen[m.Name] = true
		fmt.Fprintf(&b, "if \"%s\" in _held:\n    import %s as _t\n    log(\"main\", 0, \"held\", \"%s\", _held[\"%s\"] is _t)\n", m.Name, m.Name, m.Name, m.Name)
	}
	return b.String()
}

func (p *ImportProg) RenderAfter() string {
	var b strings.Builder
	b.WriteString("from simlog import log, exc_name\n")
	for _, s := range p.After {
		renderImportStmt(&b, s, "after")
	}
	return b.String()
}

func renderImportStmt(b *strings.Builder, s ImportStmt, me string) {
	tag := fmt.Sprintf("\"%s\", %d", me, s.ID)
	switch s.K {
	case "code":
		fmt.Fprintf(b, "log(%s, \"code\", %d, [i * i for i in range(3)])\n", tag, s.V)
	case "imp":
		var stmt, probe string
		alias := fmt.Sprintf("a%d", s.ID)
		if s.Alias != "" {
			alias = s.Alias
		}
		switch s.Form {
		case "plain":
			stmt = "import " + s.M
			probe = fmt.Sprintf("log(%s, \"imported\", %s.x)", tag, s.M)
		case "as":
			stmt = fmt.Sprintf("import %s as %s", s.M, alias)
			probe = fmt.Sprintf("log(%s, \"imported\", %s.x)", tag, alias)
		case "from":
			stmt = fmt.Sprintf("from %s import %s", s.M, s.N)
			probe = fmt.Sprintf("log(%s, \"from\", %s)", tag, s.N)
		case "fromas":
			stmt = fmt.Sprintf("from %s import %s as %s", s.M, s.N, alias)
			probe = fmt.Sprintf("log(%s, \"from\", %s)", tag, alias)
		case "star":
			stmt = fmt.Sprintf("from %s import *", s.M)
			probe = ""
		case "func":
			// the import statement executes inside a function (other globals / locals)
			stmt = fmt.Sprintf("def _imp%d():\n        import %s\n        from %s import x as _fx\n        return (%s.x, _fx)\n    log(%s, \"func\", _imp%d())", s.ID, s.M, s.M, s.M, tag, s.ID)
			probe = ""
		case "dunder":
			stmt = fmt.Sprintf("%s = __import__(\"%s\")", alias, s.M)
			probe = fmt.Sprintf("log(%s, \"imported\", %s.x)", tag, alias)
		case "starexec":
			// a star import executed with a fresh, empty dict as its local namespace
			stmt = fmt.Sprintf("_ns%d = {}\n    exec(\"from %s import *\", {}, _ns%d)\n    log(%s, \"starexec\", [_n for _n in (\"x\", \"_p\", \"h\", \"val\", \"tail\", \"extra\") if _n in _ns%d], _ns%d.get(\"x\"))", s.ID, s.M, s.ID, tag, s.ID, s.ID)
			probe = ""
		case "from2":
			stmt = fmt.Sprintf("from %s import x as %s, val as %s_v, h as %s_h", s.M, alias, alias, alias)
			probe = fmt.Sprintf("log(%s, \"from2\", %s, %s_v, %s_h)", tag, alias, alias, alias)
		}
		if s.Wrap {
			fmt.Fprintf(b, "try:\n    %s\n    log(%s, \"ok\")\nexcept ImportError as _e:\n    log(%s, \"failed\", exc_name(_e))\nexcept AttributeError as _e:\n    log(%s, \"failed-attr\", exc_name(_e))\n", stmt, tag, tag, tag)
		} else {
			fmt.Fprintf(b, "%s\n", stmt)
		}
		if probe != "" {
			fmt.Fprintf(b, "try:\n    %s\nexcept (NameError, AttributeError) as _e:\n    log(%s, \"probe\", exc_name(_e))\n", probe, tag)
		}
		if s.Form == "star" {
			// a star import must not clobber the importer's own identity
			fmt.Fprintf(b, "log(%s, \"star-name\", __name__)\n", tag)
			for _, n := range []string{"x", "_p", "h", "val", "tail", "extra", "ghost"} {
				fmt.Fprintf(b, "try:\n    log(%s, \"star\", \"%s\", %s)\nexcept NameError:\n    log(%s, \"star\", \"%s\", \"unbound\")\n", tag, n, n, tag, n)
			}
		}
	case "mut":
		fmt.Fprintf(b, "import %s as _t\n_t.val = %d\nlog(%s, \"mut\", \"%s\", %d)\n", s.M, s.V, tag, s.M, s.V)
		if s.V%3 == 0 {
			fmt.Fprintf(b, "_t.extra = \"e%d\"\n", s.V)
		}
	case "read":
		hold := ""
		if me == "main" {
			hold = fmt.Sprintf("    if \"%s\" not in _held:\n        _held[\"%s\"] = _t\n", s.M, s.M)
		}
		fmt.Fprintf(b, "try:\n    import %s as _t\n%s    log(%s, \"read\", \"%s\", _t.val, _t.x)\nexcept (ImportError, AttributeError) as _e:\n    log(%s, \"read\", \"%s\", exc_name(_e))\n", s.M, hold, tag, s.M, tag, s.M)
	case "mainmod":
		fmt.Fprintf(b, "try:\n    import __main__ as _mm\n    log(%s, \"mainmod\", getattr(_mm, \"mk\", \"unset\"), _mm.__name__)\n    _mm.seen_%d = %d\nexcept ImportError as _e:\n    log(%s, \"mainmod\", exc_name(_e))\n", tag, s.ID, s.V, tag)
	case "raise":
		fmt.Fprintf(b, "log(%s, \"raising\")\nraise ValueError(\"boom\")\n", tag)
	case "impbad":
		fmt.Fprintf(b, "try:\n    import %s\n    log(%s, \"impbad\", \"no error\")\nexcept ValueError as _e:\n    log(%s, \"impbad\", exc_name(_e))\n", s.M, tag, tag)
	case "late", "swap":
		fmt.Fprintf(b, "try:\n    import %s\n    log(%s, \"early\", \"ok\")\nexcept ImportError as _e:\n    log(%s, \"early\", exc_name(_e))\n", s.M, tag, tag)
		if s.K == "late" {
			fmt.Fprintf(b, "fs_add(\"lib0/%s.py\")\n", s.M)
		} else {
			fmt.Fprintf(b, "import sys\nsys.path[-1] = libdir(\"libx\")\n")
		}
		fmt.Fprintf(b, "try:\n    import %s\n    log(%s, \"retry\", %s.x)\nexcept ImportError as _e:\n    log(%s, \"retry\", exc_name(_e))\n", s.M, tag, s.M, tag)
		fmt.Fprintf(b, "try:\n    import %s as _again\n    log(%s, \"again\", _again is %s)\nexcept (ImportError, NameError) as _e:\n    log(%s, \"again\", exc_name(_e))\n", s.M, tag, s.M, tag)
	case "readany":
		// used by the follow-up program: any failure of the import is logged, not fatal
		fmt.Fprintf(b, "try:\n    import %s as _t\n    log(%s, \"read\", \"%s\", _t.val, _t.x)\nexcept Exception as _e:\n    log(%s, \"read\", \"%s\", exc_name(_e))\n", s.M, tag, s.M, tag, s.M)
	case "gomut":
		fmt.Fprintf(b, "import math as _gm\n_gm.%s = %d\nlog(%s, \"gomut\", \"%s\", %d)\n", s.N, s.V, tag, s.N, s.V)
	case "godel":
		// (whether deleting an absent attribute raises is attribute semantics, not imports)
		fmt.Fprintf(b, "import math as _gm\ntry:\n    del _gm.%s\nexcept AttributeError as _e:\n    pass\nlog(%s, \"godel\", \"%s\")\n", s.N, tag, s.N)
	case "goread":
		orig := map[string]string{"pi": "3.141592653589793", "e": "2.718281828459045", "zz": "None"}[s.N]
		fmt.Fprintf(b, "import math as _gm\ntry:\n    from math import %s as _ga\n    log(%s, \"goread\", \"%s\", _ga == %s or _ga, _gm.%s == %s or _gm.%s)\nexcept (ImportError, AttributeError) as _e:\n    log(%s, \"goread\", \"%s\", exc_name(_e))\n", s.N, tag, s.N, orig, s.N, orig, s.N, tag, s.N)
	case "ident":
		fmt.Fprintf(b, "import %s as _i1\nimport %s as _i2\nfrom %s import x as _x1\nlog(%s, \"ident\", _i1 is _i2, _x1 is _i1.x)\n", s.M, s.M, s.M, tag)
	case "gomod":
		fmt.Fprintf(b, "import %s as _g1\nimport %s as _g2\nlog(%s, \"gomod\", _g1 is _g2)\n", s.M, s.M, tag)
		if s.M == "math" {
			fmt.Fprintf(b, "from math import sqrt as _s\nlog(%s, \"sqrt\", _s(4.0) == 2.0, _s is _g1.sqrt or True)\n", tag)
		}
	}
}

// goStmt: mutation / deletion / observation of an attribute of the built-in
// (Go) module math, through the module object and through from-import.
func goStmt(r *simrt.Rand, v, id int) ImportStmt {
	n := []string{"pi", "e", "zz"}[r.Intn(3)]
	switch r.Intn(6) {
	case 0, 1:
		return ImportStmt{K: "gomut", M: "math", N: n, V: v, ID: id}
	case 2:
		return ImportStmt{K: "godel", M: "math", N: n, ID: id}
	}
	return ImportStmt{K: "goread", M: "math", N: n, ID: id}
}

// ShrinkImport proposes smaller programs.
func ShrinkImport(p *ImportProg) []*ImportProg {
	var out []*ImportProg
	clone := func() *ImportProg {
		c := &ImportProg{Path: p.Path, After: p.After, Late: p.Late}
		for _, m := range p.Mods {
			m.Body = append([]ImportStmt(nil), m.Body...)
			c.Mods = append(c.Mods, m)
		}
		c.Main = append([]ImportStmt(nil), p.Main...)
		return c
	}
	for i := range p.Main {
		c := clone()
		c.Main = append(c.Main[:i], c.Main[i+1:]...)
		out = append(out, c)
	}
	for mi, m := range p.Mods {
		for i := range m.Body {
			c := clone()
			c.Mods[mi].Body = append(c.Mods[mi].Body[:i], c.Mods[mi].Body[i+1:]...)
			out = append(out, c)
		}
		if m.All != nil {
			c := clone()
			c.Mods[mi].All = nil
			out = append(out, c)
		}
		if m.Fault != "" {
			c := clone()
			c.Mods[mi].Fault = ""
			out = append(out, c)
		}
	}
	if len(p.Mods) > 1 {
		for mi := range p.Mods {
			c := clone()
			c.Mods = append(c.Mods[:mi], c.Mods[mi+1:]...)
			out = append(out, c)
		}
	}
	return out
}
