// Package harness is the engine-independent part of the simulation driver:
// seeded exploration over worker processes, known-finding matching,
// shrinking, replay files and evidence.
package harness

import (
	"encoding/json"
	"fmt"
	"os"
	"sort"
	"strings"

	"github.com/go-python/gpython/simrt"
)

// Violation is one failed oracle clause.
type Violation struct {
	Class  string `json:"class"`  // oracle clause, e.g. "I3-close-returned-while-running"
	Sig    string `json:"sig"`    // discriminating signature used for known-finding matching
	Detail string `json:"detail"` // human readable
}

// Outcome is the result of executing one scenario once.
type Outcome struct {
	Violations []Violation
	Decisions  []simrt.Decision
	LogHash    uint64
	Steps      int64
	Switches   int64
	Capped     bool
	// Shape is a short canonical description of what this run exercised; the
	// evidence counts distinct shapes.  Empty: the run was trivial.
	Shape  string
	Probes map[string]int64
	Faults map[string]int64
	Trace  []string // optional event log for replay files
	Infra  string   // non-empty: the run could not be judged (reference side failed etc.)
}

func (o *Outcome) Probe(name string) {
	if o.Probes == nil {
		o.Probes = map[string]int64{}
	}
	o.Probes[name]++
}

func (o *Outcome) Fault(name string, n int64) {
	if n == 0 {
		return
	}
	if o.Faults == nil {
		o.Faults = map[string]int64{}
	}
	o.Faults[name] += n
}

func (o *Outcome) Violate(class, sig, detail string, args ...interface{}) {
	o.Violations = append(o.Violations, Violation{Class: class, Sig: sig, Detail: fmt.Sprintf(detail, args...)})
}

// ExecOpts control one execution.
type ExecOpts struct {
	Schedule []simrt.Decision // non-nil: replay exactly these decisions
	UseSched bool
	KeepLog  bool
}

// Engine is one workload generator + oracle.
type Engine interface {
	Name() string
	Property() string
	// Gen derives scenario number idx from the run seed.  tier is quick|thorough.
	Gen(seed uint64, idx int, tier string) interface{}
	Decode(raw json.RawMessage) (interface{}, error)
	// Prepare computes reference data for a batch of scenarios (e.g. CPython
	// traces) and stores it inside them.  A returned error is an
	// infrastructure failure (exit 2), never a violation.
	Prepare(batch []interface{}) error
	Exec(sc interface{}, opt ExecOpts) *Outcome
	// Shrink proposes simpler scenarios (each strictly smaller).
	Shrink(sc interface{}) []interface{}
	// Reseed returns a copy of sc whose schedule/order choices derive from k.
	Reseed(sc interface{}, k uint64) interface{}
	Describe() EngineInfo
}

// Texter is implemented by engines whose scenarios have a human-readable form
// (the generated Python program); it is stored in replay files.
type Texter interface {
	Text(sc interface{}) string
}

type EngineInfo struct {
	Rule        string   `json:"rule"`
	Real        []string `json:"real_components"`
	Stubbed     []string `json:"stubbed_components"`
	Assumptions []string `json:"assumptions"`
	Fragment    []string `json:"fragment,omitempty"`
	TimeUnit    string   `json:"simulated_time_unit"`
}

var engines = map[string]Engine{}

func Register(e Engine) { engines[e.Name()] = e }

func Get(name string) Engine { return engines[name] }

func Names() []string {
	var out []string
	for n := range engines {
		out = append(out, n)
	}
	sort.Strings(out)
	return out
}

// Replay is the on-disk replay file.
type Replay struct {
	Engine    string           `json:"engine"`
	Property  string           `json:"property"`
	Seed      uint64           `json:"seed"`
	Index     int              `json:"index"`
	Scenario  json.RawMessage  `json:"scenario"`
	Schedule  []simrt.Decision `json:"schedule"`
	UseSched  bool             `json:"use_schedule"`
	Violation Violation        `json:"violation"`
	LogHash   string           `json:"log_hash"`
	Trace     []string         `json:"trace,omitempty"`
	Program   []string         `json:"program,omitempty"` // the scenario rendered as source text, line by line
	// Prelude: scenarios executed (outcomes ignored) in the same process before
	// the scenario proper.  Needed when the violation depends on state that
	// earlier scenarios left behind in the PROCESS (e.g. a process-wide cache
	// that should have been per context).
	Prelude []json.RawMessage `json:"prelude,omitempty"`
	Note    string            `json:"note,omitempty"`
}

func WriteReplay(path string, r *Replay) error {
	b, err := json.MarshalIndent(r, "", " ")
	if err != nil {
		return err
	}
	return os.WriteFile(path, b, 0o644)
}

func ReadReplay(path string) (*Replay, error) {
	b, err := os.ReadFile(path)
	if err != nil {
		return nil, err
	}
	var r Replay
	if err := json.Unmarshal(b, &r); err != nil {
		return nil, err
	}
	return &r, nil
}

// KnownFinding is one entry of /verif/known_findings.json.
type KnownFinding struct {
	ID       string `json:"id"`
	Property string `json:"property"`
	Status   string `json:"status"` // known | fixed
	Engine   string `json:"engine"`
	Sig      string `json:"sig"`     // signature (prefix match on Violation.Sig)
	Witness  string `json:"witness"` // replay file relative to /verif
	What     string `json:"what"`
	Commit   string `json:"commit,omitempty"`
	// Exclude lists generator input classes switched off while this finding
	// is known, so that exploration does not keep rediscovering variants
	Exclude []string `json:"exclude,omitempty"`
}

var known []KnownFinding

// SetKnown installs the known findings (done once at start-up).
func SetKnown(k []KnownFinding) { known = k }

// Excluded returns the input classes excluded for an engine by findings with
// status "known".
func Excluded(engine string) map[string]bool {
	out := map[string]bool{}
	for _, k := range known {
		if k.Status == "known" && k.Engine == engine {
			for _, e := range k.Exclude {
				out[e] = true
			}
		}
	}
	return out
}

func LoadKnown(path string) ([]KnownFinding, error) {
	b, err := os.ReadFile(path)
	if err != nil {
		if os.IsNotExist(err) {
			return nil, nil
		}
		return nil, err
	}
	var f struct {
		Findings []KnownFinding `json:"findings"`
	}
	if err := json.Unmarshal(b, &f); err != nil {
		return nil, err
	}
	return f.Findings, nil
}

// MatchKnown returns the known (status=known) finding whose signature matches v.
func MatchKnown(known []KnownFinding, prop, engine string, v Violation) *KnownFinding {
	for i := range known {
		k := &known[i]
		if k.Status != "known" || k.Property != prop {
			continue
		}
		if k.Engine != "" && k.Engine != engine {
			continue
		}
		if k.Sig != "" && sigMatch(k.Sig, v.Sig) {
			return k
		}
	}
	return nil
}

func sameViolation(a, b Violation) bool { return a.Class == b.Class && a.Sig == b.Sig }

// FindSame returns the violation of o equal (class+sig) to v, if any.
func FindSame(o *Outcome, v Violation) *Violation {
	for i := range o.Violations {
		if sameViolation(o.Violations[i], v) {
			return &o.Violations[i]
		}
	}
	return nil
}

// SafeExec runs e.Exec and turns a panic of the harness/engine code itself
// into an infrastructure outcome (never a violation).
func SafeExec(e Engine, sc interface{}, opt ExecOpts) (o *Outcome) {
	defer func() {
		if r := recover(); r != nil {
			o = &Outcome{Infra: fmt.Sprintf("engine panicked: %v", r)}
		}
	}()
	return e.Exec(sc, opt)
}

// Minimise shrinks (scenario, schedule) while the same violation recurs.
// budget bounds the number of executions.
func Minimise(e Engine, sc interface{}, v Violation, first *Outcome, budget int) (interface{}, *Outcome, int) {
	best, bestOut := sc, first
	used := 0
	improved := true
	for improved && used < budget {
		improved = false
		for _, cand := range e.Shrink(best) {
			if used >= budget {
				break
			}
			if err := e.Prepare([]interface{}{cand}); err != nil {
				continue
			}
			// the candidate under its own schedule seed first, then fresh ones
			var prevHash uint64
			for k := 0; k < 24 && used < budget; k++ {
				c := cand
				if k > 0 {
					c = e.Reseed(cand, uint64(k))
				}
				used++
				o := SafeExec(e, c, ExecOpts{})
				if o.Infra == "" && FindSame(o, v) != nil {
					best, bestOut = c, o
					improved = true
					break
				}
				// reseeding changes nothing for this candidate (no schedule or
				// order dependence): do not waste the budget on it
				if k > 0 && o.LogHash == prevHash {
					break
				}
				prevHash = o.LogHash
			}
			if improved {
				break
			}
		}
	}
	// schedule minimisation: drop recorded decisions while it still fails
	dec := append([]simrt.Decision(nil), bestOut.Decisions...)
	if len(dec) > 0 {
		o := SafeExec(e, best, ExecOpts{Schedule: dec, UseSched: true})
		used++
		if o.Infra == "" && FindSame(o, v) != nil {
			n := 2
			for len(dec) >= 1 && used < budget*2 {
				chunk := (len(dec) + n - 1) / n
				removed := false
				for start := 0; start < len(dec); start += chunk {
					end := start + chunk
					if end > len(dec) {
						end = len(dec)
					}
					cand := append(append([]simrt.Decision(nil), dec[:start]...), dec[end:]...)
					used++
					o2 := SafeExec(e, best, ExecOpts{Schedule: cand, UseSched: true})
					if o2.Infra == "" && FindSame(o2, v) != nil {
						dec = cand
						o = o2
						removed = true
						if n > 2 {
							n--
						}
						break
					}
				}
				if !removed {
					if chunk <= 1 {
						break
					}
					n *= 2
					if n > len(dec) {
						n = len(dec)
					}
				}
				if len(dec) == 0 {
					break
				}
			}
			o.Decisions = dec
			bestOut = o
			bestOut.Probes = map[string]int64{"minimised_schedule": 1}
			return best, bestOut, used
		}
	}
	bestOut.Probes = nil
	return best, bestOut, used
}

// sigMatch: exact match, prefix match at a '|' boundary, or a pattern with
// one '*' wildcard (which does not cross '|').
func sigMatch(pat, sig string) bool {
	if i := strings.IndexByte(pat, '*'); i >= 0 {
		pre, post := pat[:i], pat[i+1:]
		if !strings.HasPrefix(sig, pre) || !strings.HasSuffix(sig, post) || len(sig) < len(pre)+len(post) {
			return false
		}
		return !strings.Contains(sig[len(pre):len(sig)-len(post)], "|")
	}
	return sig == pat || strings.HasPrefix(sig, pat+"|")
}
