// Package pyhost holds what the engines share: a session (context + main
// module + recording log), canonical value rendering identical to the CPython
// prelude in /verif/ref/runbatch.py, structural dumps of code objects, and
// the CPython reference runner.
package pyhost

import (
	"bytes"
	"encoding/json"
	"fmt"
	"os"
	"os/exec"
	"path/filepath"
	"sort"
	"strconv"
	"strings"
	"sync"
	"time"

	"github.com/go-python/gpython/py"
	_ "github.com/go-python/gpython/stdlib"
)

// Session is one gpython context with a main module and a trace recorder.
type Session struct {
	Ctx   py.Context
	Main  *py.Module
	Trace []string
	Hook  func(kind string, args py.Tuple) // optional: called on every log/tick
	Max   int
}

var sessions = map[py.Context]*Session{}
var sessionsMu sync.Mutex // mode B runs sessions on parallel goroutines

func init() {
	py.RegisterModule(&py.ModuleImpl{
		Info: py.ModuleInfo{Name: "simlog"},
		Methods: []*py.Method{
			py.MustNewMethod("log", hostLog, 0, "log(*values): append canonical renderings to the trace"),
			py.MustNewMethod("exc_name", hostExcName, 0, "exc_name(e): class name of an exception instance"),
			py.MustNewMethod("exc_loc", hostExcLoc, 0, "exc_loc(e): (filename, lineno) an exception instance carries, as an embedder reads them"),
			py.MustNewMethod("hcall", hostHcall, 0, "hcall(f, args, kwargs): the embedder calls f through py.Call, handing over its own tuple and dict"),
			py.MustNewMethod("tick", hostTick, 0, "tick(i): side effect marker"),
			py.MustNewMethod("tk", hostTk, 0, "tk(i, v): side effect marker i, returns v"),
			py.MustNewMethod("feed", hostFeed, 0, "feed(line): the embedder types one more line into the interactive session that is executing this call"),
			py.MustNewMethod("echo", hostEcho, 0, "echo(v): reference-side stand-in for the interactive echo of a nested expression statement"),
			py.MustNewMethod("libdir", hostLibdir, 0, "libdir(name): absolute path of a scenario directory"),
			py.MustNewMethod("fs_add", hostFsAdd, 0, "fs_add(relpath): a file of the scenario appears in the file system now"),
		},
	})
}

func sessionOf(self py.Object) *Session {
	if m, ok := self.(*py.Module); ok {
		sessionsMu.Lock()
		defer sessionsMu.Unlock()
		return sessions[m.Context]
	}
	return nil
}

func hostLog(self py.Object, args py.Tuple) (py.Object, error) {
	s := sessionOf(self)
	if s == nil {
		return py.None, nil
	}
	parts := make([]string, len(args))
	for i, a := range args {
		parts[i] = Canon(a)
	}
	s.add(strings.Join(parts, " "))
	if s.Hook != nil {
		s.Hook("log", args)
	}
	return py.None, nil
}

func hostTick(self py.Object, args py.Tuple) (py.Object, error) {
	s := sessionOf(self)
	if s != nil && s.Hook != nil {
		s.Hook("tick", args)
	}
	return py.None, nil
}

// FSAdd is installed by the engine that owns the virtual file system.
var FSAdd func(rel string)

func hostEcho(self py.Object, args py.Tuple) (py.Object, error) {
	s := sessionOf(self)
	if s != nil && s.Hook != nil {
		s.Hook("echo", args)
	}
	return py.None, nil
}

func hostFeed(self py.Object, args py.Tuple) (py.Object, error) {
	s := sessionOf(self)
	if s != nil && s.Hook != nil {
		s.Hook("feed", args)
	}
	return py.None, nil
}

func hostLibdir(self py.Object, args py.Tuple) (py.Object, error) {
	if len(args) != 1 {
		return nil, py.ExceptionNewf(py.TypeError, "libdir takes one argument")
	}
	n, _ := args[0].(py.String)
	return py.String("/simcwd/" + string(n)), nil
}

func hostFsAdd(self py.Object, args py.Tuple) (py.Object, error) {
	if len(args) == 1 && FSAdd != nil {
		if n, ok := args[0].(py.String); ok {
			FSAdd(string(n))
		}
	}
	return py.None, nil
}

func hostTk(self py.Object, args py.Tuple) (py.Object, error) {
	if len(args) != 2 {
		return nil, py.ExceptionNewf(py.TypeError, "tk takes two arguments")
	}
	s := sessionOf(self)
	if s != nil && s.Hook != nil {
		s.Hook("tick", args)
	}
	return args[1], nil
}

func (s *Session) add(line string) {
	if s.Max > 0 && len(s.Trace) >= s.Max {
		return
	}
	s.Trace = append(s.Trace, line)
}

func hostExcName(self py.Object, args py.Tuple) (py.Object, error) {
	if len(args) != 1 {
		return nil, py.ExceptionNewf(py.TypeError, "exc_name takes one argument")
	}
	switch e := args[0].(type) {
	case *py.Exception:
		return py.String(normExc(e.Type().Name)), nil
	case *py.Type:
		return py.String("class:" + e.Name), nil
	}
	return py.String("notexc:" + args[0].Type().Name), nil
}

// hostHcall is an embedder calling a Python callable with py.Call: the kwargs
// dict it passes is its OWN dict (in gpython a dict object is a py.StringDict),
// which the call must treat like f(*args, **kwargs) treats its operands.
func hostHcall(self py.Object, args py.Tuple) (py.Object, error) {
	if len(args) != 3 {
		return nil, py.ExceptionNewf(py.TypeError, "hcall takes three arguments")
	}
	a, ok1 := args[1].(py.Tuple)
	k, ok2 := args[2].(py.StringDict)
	if !ok1 || !ok2 {
		return nil, py.ExceptionNewf(py.TypeError, "hcall(f, tuple, dict)")
	}
	return py.Call(args[0], a, k)
}

func hostExcLoc(self py.Object, args py.Tuple) (py.Object, error) {
	if len(args) != 1 {
		return nil, py.ExceptionNewf(py.TypeError, "exc_loc takes one argument")
	}
	e, ok := args[0].(*py.Exception)
	if !ok || e.Dict == nil {
		return py.Tuple{py.None, py.None}, nil
	}
	get := func(k string) py.Object {
		if v, ok := e.Dict[k]; ok {
			return v
		}
		return py.None
	}
	return py.Tuple{get("filename"), get("lineno")}, nil
}

// normExc folds exception subclasses whose distinction no claimed property
// speaks about (the same table is in ref/runbatch.py).
func normExc(n string) string {
	switch n {
	case "UnboundLocalError":
		return "NameError"
	case "ModuleNotFoundError":
		return "ImportError"
	}
	return n
}

// Attach registers an externally created context (e.g. the REPL's) as a
// session so that simlog's host functions find it.
func Attach(ctx py.Context, main *py.Module) *Session {
	s := &Session{Ctx: ctx, Main: main, Max: 5000}
	sessionsMu.Lock()
	sessions[ctx] = s
	sessionsMu.Unlock()
	return s
}

// NewSession creates a context (outside or inside a simulation).
func NewSession(sysPaths []string) (*Session, error) {
	ctx := py.NewContext(py.ContextOpts{SysArgs: []string{"sim"}, SysPaths: sysPaths})
	s := &Session{Ctx: ctx, Max: 5000}
	sessionsMu.Lock()
	sessions[ctx] = s
	sessionsMu.Unlock()
	m, err := ctx.Store().NewModule(ctx, &py.ModuleImpl{Info: py.ModuleInfo{Name: "__main__", FileDesc: "<main>"}})
	if err != nil {
		return nil, err
	}
	s.Main = m
	return s, nil
}

// Close releases the session.
func (s *Session) Close() {
	sessionsMu.Lock()
	delete(sessions, s.Ctx)
	sessionsMu.Unlock()
	s.Ctx.Close()
}

// Run compiles src in exec mode and runs it in the main module.  It returns
// the class name of the escaping exception ("" if none) and recovers panics
// (returned as "PANIC: ...").
func (s *Session) Run(src, filename string) (exc string) {
	defer func() {
		if r := recover(); r != nil {
			exc = "PANIC: " + fmt.Sprint(r)
		}
	}()
	code, err := py.Compile(src, filename, py.ExecMode, 0, true)
	if err != nil {
		return "COMPILE:" + ExcClass(err)
	}
	_, err = s.Ctx.RunCode(code, s.Main.Globals, s.Main.Globals, nil)
	if err != nil {
		return ExcClass(err)
	}
	return ""
}

// ExcClass is the Python class name of an error returned by gpython.
func ExcClass(err error) string {
	switch e := err.(type) {
	case nil:
		return ""
	case py.ExceptionInfo:
		if e.Type != nil {
			return normExc(e.Type.Name)
		}
	case *py.ExceptionInfo:
		if e.Type != nil {
			return normExc(e.Type.Name)
		}
	case *py.Exception:
		return normExc(e.Type().Name)
	}
	return "GOERROR:" + err.Error()
}

// Canon renders a value exactly as canon() in ref/runbatch.py does.
func Canon(o py.Object) string {
	return canon(o, 0)
}

func canon(o py.Object, depth int) string {
	if depth > 6 {
		return "<deep>"
	}
	switch v := o.(type) {
	case nil:
		return "<nil>"
	case py.NoneType:
		return "None"
	case py.Bool:
		if v {
			return "True"
		}
		return "False"
	case py.Int:
		return strconv.FormatInt(int64(v), 10)
	case *py.BigInt:
		s, err := py.Str(v)
		if err != nil {
			return "<bigint?>"
		}
		return string(s.(py.String))
	case py.String:
		return strconv.Quote(string(v))
	case py.Float:
		f := float64(v)
		if f == float64(int64(f)) && f < 1e15 && f > -1e15 {
			return fmt.Sprintf("f%d", int64(f))
		}
		return "f" + strconv.FormatFloat(f, 'g', 12, 64)
	case *py.List:
		parts := make([]string, len(v.Items))
		for i, x := range v.Items {
			parts[i] = canon(x, depth+1)
		}
		return "[" + strings.Join(parts, ",") + "]"
	case py.Tuple:
		parts := make([]string, len(v))
		for i, x := range v {
			parts[i] = canon(x, depth+1)
		}
		return "(" + strings.Join(parts, ",") + ")"
	case py.StringDict:
		keys := make([]string, 0, len(v))
		for k := range v {
			keys = append(keys, k)
		}
		sort.Strings(keys)
		parts := make([]string, len(keys))
		for i, k := range keys {
			parts[i] = strconv.Quote(k) + ":" + canon(v[k], depth+1)
		}
		return "{" + strings.Join(parts, ",") + "}"
	case *py.Set:
		return "set" + canonSorted(setItems(v), depth)
	case *py.FrozenSet:
		return "frozenset" + canonSorted(frozenItems(v), depth)
	case *py.Type:
		return "<class " + v.Name + ">"
	}
	return "<" + o.Type().Name + ">"
}

func setItems(s *py.Set) []py.Object {
	t, err := py.SequenceTuple(s)
	if err != nil {
		return nil
	}
	return []py.Object(t)
}

func frozenItems(s *py.FrozenSet) []py.Object {
	t, err := py.SequenceTuple(s)
	if err != nil {
		return nil
	}
	return []py.Object(t)
}

func canonSorted(items []py.Object, depth int) string {
	parts := make([]string, len(items))
	for i, x := range items {
		parts[i] = canon(x, depth+1)
	}
	sort.Strings(parts)
	return "{" + strings.Join(parts, ",") + "}"
}

// DumpCode is a deep structural rendering of a code object (C18's notion of
// "structurally identical").
func DumpCode(c *py.Code) string {
	var b strings.Builder
	dumpCode(&b, c, 0)
	return b.String()
}

func dumpCode(b *strings.Builder, c *py.Code, depth int) {
	ind := strings.Repeat(" ", depth)
	fmt.Fprintf(b, "%scode %q file=%q first=%d args=%d kwonly=%d nlocals=%d stack=%d flags=%#x\n", ind, c.Name, c.Filename, c.Firstlineno, c.Argcount, c.Kwonlyargcount, c.Nlocals, c.Stacksize, c.Flags)
	fmt.Fprintf(b, "%s bytecode=%x\n", ind, c.Code)
	fmt.Fprintf(b, "%s lnotab=%x\n", ind, c.Lnotab)
	fmt.Fprintf(b, "%s names=%q varnames=%q freevars=%q cellvars=%q cell2arg=%v\n", ind, c.Names, c.Varnames, c.Freevars, c.Cellvars, c.Cell2arg)
	for i, k := range c.Consts {
		if cc, ok := k.(*py.Code); ok {
			fmt.Fprintf(b, "%s const[%d]=\n", ind, i)
			dumpCode(b, cc, depth+2)
		} else {
			fmt.Fprintf(b, "%s const[%d]=%s:%s\n", ind, i, k.Type().Name, constRepr(k))
		}
	}
}

func constRepr(k py.Object) string {
	switch v := k.(type) {
	case py.Tuple:
		parts := make([]string, len(v))
		for i, x := range v {
			parts[i] = x.Type().Name + ":" + constRepr(x)
		}
		return "(" + strings.Join(parts, ",") + ")"
	case py.Float:
		return strconv.FormatFloat(float64(v), 'g', -1, 64)
	case py.Complex:
		return fmt.Sprint(complex128(v))
	case py.Bytes:
		return fmt.Sprintf("%x", []byte(v))
	}
	r, err := py.Repr(k)
	if err != nil {
		return "<repr error>"
	}
	return string(r.(py.String))
}

// ---------------------------------------------------------------- CPython

// RefProgram is one program for the reference interpreter.
type RefProgram struct {
	ID    int               `json:"id"`
	Main  string            `json:"main"`
	Files map[string]string `json:"files,omitempty"`      // relative path -> source (import scenarios)
	Path  []string          `json:"path,omitempty"`       // sys.path entries relative to the scenario root
	Mode  string            `json:"mode,omitempty"`       // "" exec | "compile" (only report whether it compiles)
	After *string           `json:"after,omitempty"`      // second program run in the same namespace afterwards
	Dirs  []string          `json:"dirs,omitempty"`       // empty directories to create (relative paths)
	Late  map[string]string `json:"late_files,omitempty"` // files that appear only when the program calls fs_add(path)
}

type RefResult struct {
	ID    int      `json:"id"`
	Trace []string `json:"trace"`
	Exc   string   `json:"exc"`
	Exc2  string   `json:"exc2,omitempty"`
	Error string   `json:"error,omitempty"`
}

// RunReference runs the programs under CPython (one interpreter start).
func RunReference(progs []RefProgram) (map[int]*RefResult, error) {
	vdir := os.Getenv("VERIF_DIR")
	if vdir == "" {
		vdir = "/verif"
	}
	script := filepath.Join(vdir, "ref", "runbatch.py")
	in, err := json.Marshal(progs)
	if err != nil {
		return nil, err
	}
	py3 := os.Getenv("VERIF_PYTHON")
	if py3 == "" {
		py3 = "/usr/bin/python3"
	}
	cmd := exec.Command(py3, "-S", "-E", script)
	cmd.Env = append(os.Environ(), "PYTHONDONTWRITEBYTECODE=1")
	if hs := os.Getenv("VERIF_PYTHONHASHSEED"); hs != "" {
		cmd.Env = append(cmd.Env, "PYTHONHASHSEED="+hs)
	}
	cmd.Stdin = bytes.NewReader(in)
	var stdout, stderr bytes.Buffer
	cmd.Stdout = &stdout
	cmd.Stderr = &stderr
	done := make(chan error, 1)
	if err := cmd.Start(); err != nil {
		return nil, fmt.Errorf("reference interpreter: %v", err)
	}
	go func() { done <- cmd.Wait() }()
	select {
	case err := <-done:
		if err != nil {
			return nil, fmt.Errorf("reference interpreter failed: %v: %s", err, tailStr(stderr.String(), 2000))
		}
	case <-time.After(300 * time.Second):
		cmd.Process.Kill()
		return nil, fmt.Errorf("reference interpreter timed out")
	}
	var results []*RefResult
	if err := json.Unmarshal(stdout.Bytes(), &results); err != nil {
		return nil, fmt.Errorf("reference interpreter output: %v: %s", err, tailStr(stdout.String(), 500))
	}
	out := make(map[int]*RefResult, len(results))
	for _, r := range results {
		out[r.ID] = r
	}
	return out, nil
}

func tailStr(s string, n int) string {
	if len(s) > n {
		return s[len(s)-n:]
	}
	return s
}

// DiffTrace returns the first difference between two traces ("" if equal).
func DiffTrace(got, want []string) string {
	n := len(got)
	if len(want) < n {
		n = len(want)
	}
	for i := 0; i < n; i++ {
		if got[i] != want[i] {
			return fmt.Sprintf("line %d: gpython %s, reference %s", i, got[i], want[i])
		}
	}
	if len(got) != len(want) {
		if len(got) > len(want) {
			return fmt.Sprintf("line %d: gpython %s, reference <end of trace>", n, got[n])
		}
		return fmt.Sprintf("line %d: gpython <end of trace>, reference %s", n, want[n])
	}
	return ""
}
