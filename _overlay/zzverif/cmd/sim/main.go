// Command sim is the simulation driver built inside the instrumented scratch
// copy of gpython.  Subcommands: check, work, replay, selftest, gen.
package main

import (
	"encoding/json"
	"flag"
	"fmt"
	"hash/fnv"
	"os"
	"os/exec"
	"path/filepath"
	"runtime"
	"sort"
	"strconv"
	"strings"
	"sync"
	"time"

	"github.com/go-python/gpython/zzverif/harness"

	_ "github.com/go-python/gpython/zzverif/engines/compiledet"
	_ "github.com/go-python/gpython/zzverif/engines/containers"
	_ "github.com/go-python/gpython/zzverif/engines/gens"
	_ "github.com/go-python/gpython/zzverif/engines/imports"
	_ "github.com/go-python/gpython/zzverif/engines/isolation"
	_ "github.com/go-python/gpython/zzverif/engines/lifecycle"
	"github.com/go-python/gpython/zzverif/engines/racepar"
	_ "github.com/go-python/gpython/zzverif/engines/repl"
	_ "github.com/go-python/gpython/zzverif/engines/scope"
	_ "github.com/go-python/gpython/zzverif/engines/srcfault"
)

type propCfg struct {
	RaceEngines  []string // mode B: run by the -race binary of the uninstrumented tree
	RaceRuns     int
	Engines      []string
	QuickRuns    int
	QuickSecs    int
	ThoroughRuns int
	ThoroughSecs int
	Level        string
}

var props = map[string]propCfg{
	"C03": {Engines: []string{"scope"}, QuickRuns: 6000, QuickSecs: 60, ThoroughRuns: 400000, ThoroughSecs: 1200, Level: "exploration"},
	"C18": {RaceEngines: []string{"race-compile"}, RaceRuns: 1500, Engines: []string{"compiledet"}, QuickRuns: 2000, QuickSecs: 40, ThoroughRuns: 400000, ThoroughSecs: 1200, Level: "exploration"},
	"C11": {Engines: []string{"srcfault"}, QuickRuns: 400000, QuickSecs: 60, ThoroughRuns: 20000000, ThoroughSecs: 1200, Level: "fault_enumeration"},
	"C05": {Engines: []string{"gens"}, QuickRuns: 30000, QuickSecs: 60, ThoroughRuns: 3000000, ThoroughSecs: 1200, Level: "exploration"},
	"C19": {Engines: []string{"imports"}, QuickRuns: 20000, QuickSecs: 60, ThoroughRuns: 2000000, ThoroughSecs: 1200, Level: "exploration"},
	"C20": {Engines: []string{"repl"}, QuickRuns: 20000, QuickSecs: 60, ThoroughRuns: 2000000, ThoroughSecs: 1200, Level: "exploration"},
	"C17": {Engines: []string{"containers"}, QuickRuns: 30000, QuickSecs: 60, ThoroughRuns: 3000000, ThoroughSecs: 1200, Level: "exploration"},
	"C08": {RaceEngines: []string{"race-contexts"}, RaceRuns: 1500, Engines: []string{"isolation"}, QuickRuns: 8000, QuickSecs: 40, ThoroughRuns: 1000000, ThoroughSecs: 1200, Level: "exploration"},
	"C09": {Engines: []string{"lifecycle"}, QuickRuns: 40000, QuickSecs: 40, ThoroughRuns: 3000000, ThoroughSecs: 900, Level: "exploration"},
}

func main() {
	if len(os.Args) < 2 {
		usage()
	}
	if k, err := harness.LoadKnown(filepath.Join(verifDir(), "known_findings.json")); err == nil {
		harness.SetKnown(k)
	}
	switch os.Args[1] {
	case "check":
		os.Exit(cmdCheck(os.Args[2:]))
	case "work":
		os.Exit(cmdWork(os.Args[2:]))
	case "replay":
		os.Exit(cmdReplay(os.Args[2:]))
	case "selftest":
		os.Exit(cmdSelftest(os.Args[2:]))
	case "gen":
		os.Exit(cmdGen(os.Args[2:]))
	case "triage":
		os.Exit(cmdTriage(os.Args[2:]))
	case "replayrace":
		os.Exit(cmdReplayRace(os.Args[2:]))
	default:
		usage()
	}
}

func usage() {
	fmt.Fprintln(os.Stderr, "usage: sim check|work|replay|selftest|gen ...")
	os.Exit(2)
}

func envSeed() uint64 {
	if s := os.Getenv("VERIF_SEED"); s != "" {
		if v, err := strconv.ParseUint(s, 10, 64); err == nil {
			return v
		}
		if v, err := strconv.ParseInt(s, 10, 64); err == nil {
			return uint64(v)
		}
	}
	return 1
}

// ---------------------------------------------------------------- work

type foundViolation struct {
	Index     int                 `json:"index"`
	Scenario  json.RawMessage     `json:"scenario"`
	Violation harness.Violation   `json:"violation"`
	All       []harness.Violation `json:"all"`
}

type workResult struct {
	Engine      string            `json:"engine"`
	Evaluations int64             `json:"evaluations"`
	Shapes      []uint64          `json:"shapes"`
	Probes      map[string]int64  `json:"probes"`
	Faults      map[string]int64  `json:"faults"`
	Steps       int64             `json:"steps"`
	Switches    int64             `json:"switches"`
	Capped      int64             `json:"capped"`
	Violations  []foundViolation  `json:"violations"`
	Samples     []json.RawMessage `json:"samples"`
	Infra       []string          `json:"infra"`
	Hashes      map[string]string `json:"hashes"`
	WallS       float64           `json:"wall_s"`
	LastIndex   int               `json:"last_index"`
	TimedOut    bool              `json:"timed_out"`
}

func h64(s string) uint64 {
	h := fnv.New64a()
	h.Write([]byte(s))
	return h.Sum64()
}

func cmdWork(args []string) int {
	fs := flag.NewFlagSet("work", flag.ExitOnError)
	engine := fs.String("engine", "", "")
	seed := fs.Uint64("seed", 1, "")
	tier := fs.String("tier", "quick", "")
	w := fs.Int("w", 0, "worker index")
	n := fs.Int("n", 1, "number of workers")
	runs := fs.Int("runs", 100, "total number of runs over all workers")
	secs := fs.Int("secs", 30, "wall clock cap")
	outp := fs.String("out", "", "result file")
	hashN := fs.Int("hashn", 0, "record log hashes of the first N indices")
	from := fs.Int("from", 0, "first index")
	fs.Parse(args)
	e := harness.Get(*engine)
	if e == nil {
		fmt.Fprintln(os.Stderr, "unknown engine", *engine)
		return 2
	}
	start := time.Now()
	res := &workResult{Engine: *engine, Probes: map[string]int64{}, Faults: map[string]int64{}, Hashes: map[string]string{}}
	shapes := map[uint64]bool{}
	perSig := map[string]int{}
	const batchN = 64
	deadline := start.Add(time.Duration(*secs) * time.Second)
	idx := *from + *w
	for idx < *from+*runs {
		if res.TimedOut || time.Now().After(deadline) {
			res.TimedOut = true
			break
		}
		var batch []interface{}
		var idxs []int
		for len(batch) < batchN && idx < *from+*runs {
			batch = append(batch, e.Gen(*seed, idx, *tier))
			idxs = append(idxs, idx)
			idx += *n
		}
		if err := e.Prepare(batch); err != nil {
			res.Infra = append(res.Infra, "prepare: "+err.Error())
			break
		}
		for bi, sc := range batch {
			if time.Now().After(deadline) {
				res.TimedOut = true
				break
			}
			o := harness.SafeExec(e, sc, harness.ExecOpts{})
			res.Evaluations++
			res.LastIndex = idxs[bi]
			if o.Infra != "" {
				if len(res.Infra) < 20 {
					res.Infra = append(res.Infra, fmt.Sprintf("idx %d: %s", idxs[bi], o.Infra))
				}
				continue
			}
			res.Steps += o.Steps
			res.Switches += o.Switches
			if o.Capped {
				res.Capped++
			}
			for k, v := range o.Probes {
				res.Probes[k] += v
			}
			for k, v := range o.Faults {
				res.Faults[k] += v
			}
			if o.Shape != "" {
				hs := h64(o.Shape)
				if !shapes[hs] {
					shapes[hs] = true
					if len(res.Samples) < 3 {
						b, _ := json.Marshal(sc)
						res.Samples = append(res.Samples, b)
					}
				}
			}
			if idxs[bi] < *from+*hashN {
				res.Hashes[strconv.Itoa(idxs[bi])] = fmt.Sprintf("%016x", o.LogHash)
			}
			seen := map[string]bool{}
			for _, v := range o.Violations {
				key := v.Class + "|" + v.Sig
				if seen[key] {
					continue
				}
				seen[key] = true
				if perSig[key] >= 2 {
					continue
				}
				perSig[key]++
				b, _ := json.Marshal(sc)
				res.Violations = append(res.Violations, foundViolation{Index: idxs[bi], Scenario: b, Violation: v, All: o.Violations})
			}
		}
	}
	for s := range shapes {
		res.Shapes = append(res.Shapes, s)
	}
	res.WallS = time.Since(start).Seconds()
	racepar.Cleanup()
	b, _ := json.Marshal(res)
	if *outp == "" {
		os.Stdout.Write(b)
		return 0
	}
	if err := os.WriteFile(*outp, b, 0o644); err != nil {
		fmt.Fprintln(os.Stderr, err)
		return 2
	}
	return 0
}

// ---------------------------------------------------------------- check

func verifDir() string {
	if d := os.Getenv("VERIF_DIR"); d != "" {
		return d
	}
	return "/verif"
}

func cmdCheck(args []string) int {
	fs := flag.NewFlagSet("check", flag.ExitOnError)
	prop := fs.String("prop", "", "property id")
	tier := fs.String("tier", "quick", "quick|thorough")
	runsOverride := fs.Int("runs", 0, "override run count")
	secsOverride := fs.Int("secs", 0, "override wall clock cap per engine")
	noEvidence := fs.Bool("no-evidence", false, "do not write the evidence file")
	fs.Parse(args)
	if t := os.Getenv("VERIF_TIER"); t != "" && *tier == "" {
		*tier = t
	}
	cfg, ok := props[*prop]
	if !ok {
		fmt.Fprintln(os.Stderr, "unknown property", *prop)
		return 2
	}
	seed := envSeed()
	start := time.Now()
	vdir := verifDir()
	outDir := filepath.Join(vdir, "out")
	os.MkdirAll(outDir, 0o755)
	tmpDir, err := os.MkdirTemp(outDir, "work-")
	if err != nil {
		fmt.Fprintln(os.Stderr, err)
		return 2
	}
	defer os.RemoveAll(tmpDir)
	known, err := harness.LoadKnown(filepath.Join(vdir, "known_findings.json"))
	if err != nil {
		fmt.Fprintln(os.Stderr, "known_findings.json:", err)
		return 2
	}
	fmt.Printf("check property=%s tier=%s seed=%d\n", *prop, *tier, seed)

	violations := 0
	infra := false
	knownPrinted := map[string]bool{}

	// 1. witnesses of known / fixed findings
	for i := range known {
		k := &known[i]
		if k.Property != *prop || k.Witness == "" {
			continue
		}
		wp := filepath.Join(vdir, k.Witness)
		rp, err := harness.ReadReplay(wp)
		if err != nil {
			fmt.Fprintln(os.Stderr, "witness", wp, err)
			infra = true
			continue
		}
		if strings.HasPrefix(rp.Engine, "race-") {
			// race-detector witnesses are replayed by the -race binary
			bin, err := raceBinary()
			if err != nil {
				fmt.Fprintln(os.Stderr, err)
				infra = true
				continue
			}
			cmd := exec.Command(bin, "replayrace", wp)
			cmd.Env = append(os.Environ(), "GORACE=halt_on_error=1 exitcode=66", "GOMAXPROCS=16")
			outb, err := cmd.CombinedOutput()
			fails := err != nil
			switch {
			case k.Status == "known" && fails:
				v := harness.Violation{Class: "data-race", Sig: raceSig(string(outb))}
				if !strings.Contains(string(outb), "DATA RACE") || harness.MatchKnown(known, *prop, rp.Engine, v) == nil {
					fmt.Printf("VIOLATION property=%s replay=%s\n", *prop, wp)
					fmt.Printf("  witness of %s now fails differently [%s]: %s\n", k.ID, v.Sig, firstLine(tailString(string(outb), 300)))
					violations++
				} else if !knownPrinted[k.ID] {
					knownPrinted[k.ID] = true
					fmt.Printf("KNOWN-FINDING: property=%s %s [%s]\n", *prop, k.What, k.ID)
				}
			case k.Status == "known":
				fmt.Printf("note: witness of known finding %s no longer fails\n", k.ID)
			case fails:
				fmt.Printf("VIOLATION property=%s replay=%s\n", *prop, wp)
				fmt.Printf("  regression of fixed finding %s\n", k.ID)
				violations++
			}
			continue
		}
		o, sc, err := runReplay(rp)
		if err != nil {
			fmt.Fprintln(os.Stderr, "witness", wp, err)
			infra = true
			continue
		}
		fails := len(o.Violations) > 0
		if k.Status == "fixed" && !fails {
			// the recorded schedule is tied to the old code's step numbers:
			// also run the witness scenario under fresh schedules / orders
			e := harness.Get(rp.Engine)
			for j := uint64(1); j <= 100 && !fails; j++ {
				c := e.Reseed(sc, j)
				if err := e.Prepare([]interface{}{c}); err != nil {
					break
				}
				if o2 := e.Exec(c, harness.ExecOpts{}); o2.Infra == "" && len(o2.Violations) > 0 {
					o, fails = o2, true
				}
			}
		}
		switch k.Status {
		case "known":
			if fails {
				if !knownPrinted[k.ID] {
					knownPrinted[k.ID] = true
					fmt.Printf("KNOWN-FINDING: property=%s %s [%s]\n", *prop, k.What, k.ID)
				}
				for _, v := range o.Violations {
					if harness.MatchKnown(known, *prop, rp.Engine, v) == nil {
						fmt.Printf("VIOLATION property=%s replay=%s\n", *prop, wp)
						fmt.Printf("  witness of %s now fails differently: %s: %s\n", k.ID, v.Class, firstLine(v.Detail))
						violations++
						break
					}
				}
			} else {
				fmt.Printf("note: witness of known finding %s no longer fails\n", k.ID)
			}
		case "fixed":
			if fails {
				fmt.Printf("VIOLATION property=%s replay=%s\n", *prop, wp)
				fmt.Printf("  regression of fixed finding %s: %s: %s\n", k.ID, o.Violations[0].Class, firstLine(o.Violations[0].Detail))
				violations++
			}
		}
	}

	// 2. seeded exploration
	type engineSummary struct {
		Name        string             `json:"engine"`
		Evaluations int64              `json:"evaluations"`
		Distinct    int                `json:"distinct_nontrivial"`
		Steps       int64              `json:"scheduler_steps"`
		Switches    int64              `json:"context_switches"`
		Capped      int64              `json:"capped_runs"`
		Probes      map[string]int64   `json:"probes"`
		Faults      map[string]int64   `json:"faults_fired"`
		WallS       float64            `json:"wall_s"`
		RunsPerHour float64            `json:"runs_per_hour"`
		Info        harness.EngineInfo `json:"info"`
		Samples     []json.RawMessage  `json:"-"`
		DetChecked  int                `json:"determinism_runs_compared"`
	}
	var summaries []engineSummary
	var allSamples []interface{}
	totalEval, totalDistinct := int64(0), 0
	for _, en := range cfg.Engines {
		e := harness.Get(en)
		if e == nil {
			fmt.Fprintln(os.Stderr, "engine not linked:", en)
			return 2
		}
		runs, secs := cfg.QuickRuns, cfg.QuickSecs
		if *tier == "thorough" {
			runs, secs = cfg.ThoroughRuns, cfg.ThoroughSecs
		}
		if *runsOverride > 0 {
			runs = *runsOverride
		}
		if *secsOverride > 0 {
			secs = *secsOverride
		}
		nw := runtime.NumCPU()
		if nw > 16 {
			nw = 16
		}
		if v := os.Getenv("VERIF_WORKERS"); v != "" {
			if x, err := strconv.Atoi(v); err == nil && x > 0 {
				nw = x
			}
		}
		est := time.Now()
		results, err := runWorkers(en, seed, *tier, nw, runs, secs, tmpDir, 8, nil)
		if err != nil {
			fmt.Fprintln(os.Stderr, "workers:", err)
			return 2
		}
		// determinism subset: the first indices again with GOMAXPROCS=1, each in a
		// process of its own - as in the main run, where index i is the first
		// scenario of worker i. (Running them one after the other in ONE process
		// would compare different process histories: code under test that keeps a
		// harmless process-wide table - an intern pool, a cache - makes the
		// instrumented event log depend on what ran before.)
		detN := 8
		if nw < detN {
			detN = nw
		}
		det, err := runWorkers(en, seed, *tier, detN, detN, 60, tmpDir, 8, []string{"GOMAXPROCS=1"})
		if err != nil {
			fmt.Fprintln(os.Stderr, "determinism run:", err)
			return 2
		}
		sum := engineSummary{Name: en, Probes: map[string]int64{}, Faults: map[string]int64{}, Info: e.Describe()}
		shapes := map[uint64]bool{}
		hashes := map[string]string{}
		var found []foundViolation
		for _, r := range results {
			sum.Evaluations += r.Evaluations
			sum.Steps += r.Steps
			sum.Switches += r.Switches
			sum.Capped += r.Capped
			for k, v := range r.Probes {
				sum.Probes[k] += v
			}
			for k, v := range r.Faults {
				sum.Faults[k] += v
			}
			for _, s := range r.Shapes {
				shapes[s] = true
			}
			for k, v := range r.Hashes {
				hashes[k] = v
			}
			found = append(found, r.Violations...)
			for _, s := range r.Samples {
				if len(sum.Samples) < 4 {
					sum.Samples = append(sum.Samples, s)
				}
			}
			for _, m := range r.Infra {
				fmt.Fprintln(os.Stderr, "infra:", en, m)
				infra = true
			}
		}
		for _, r := range det {
			for k, v := range r.Hashes {
				sum.DetChecked++
				if hv, ok := hashes[k]; ok && hv != v {
					fmt.Fprintf(os.Stderr, "simulator not deterministic: engine %s index %s log hash %s vs %s\n", en, k, hv, v)
					infra = true
				}
			}
		}
		sum.Distinct = len(shapes)
		sum.WallS = time.Since(est).Seconds()
		if sum.WallS > 0 {
			sum.RunsPerHour = float64(sum.Evaluations) / sum.WallS * 3600
		}
		totalEval += sum.Evaluations
		totalDistinct += sum.Distinct
		for _, s := range sum.Samples {
			var x interface{}
			json.Unmarshal(s, &x)
			allSamples = append(allSamples, map[string]interface{}{"engine": en, "scenario": x})
		}
		summaries = append(summaries, sum)
		fmt.Printf("engine=%s runs=%d distinct_nontrivial=%d steps=%d switches=%d wall=%.1fs\n", en, sum.Evaluations, sum.Distinct, sum.Steps, sum.Switches, sum.WallS)

		// violations: known or new
		sort.Slice(found, func(i, j int) bool { return found[i].Index < found[j].Index })
		reported := map[string]bool{}
		for _, fv := range found {
			key := fv.Violation.Class + "|" + fv.Violation.Sig
			if reported[key] {
				continue
			}
			reported[key] = true
			if k := harness.MatchKnown(known, *prop, en, fv.Violation); k != nil {
				if !knownPrinted[k.ID] {
					knownPrinted[k.ID] = true
					fmt.Printf("KNOWN-FINDING: property=%s %s [%s]\n", *prop, k.What, k.ID)
				}
				continue
			}
			if violations >= 6 {
				continue
			}
			sc, err := e.Decode(fv.Scenario)
			if err != nil {
				fmt.Fprintln(os.Stderr, "decode:", err)
				infra = true
				continue
			}
			if err := e.Prepare([]interface{}{sc}); err != nil {
				fmt.Fprintln(os.Stderr, "prepare:", err)
				infra = true
				continue
			}
			o := e.Exec(sc, harness.ExecOpts{})
			v := harness.FindSame(o, fv.Violation)
			var prelude []json.RawMessage
			if v == nil {
				// not reproducible in a fresh process on its own: the worker had
				// run earlier scenarios in the same process.  Re-create that
				// history (the worker's preceding indices) in a child process.
				prelude, v = reproduceWithHistory(e, en, seed, *tier, fv, nw)
			}
			if v == nil {
				fmt.Fprintf(os.Stderr, "violation at index %d did not reproduce in the parent process: simulator not deterministic\n", fv.Index)
				infra = true
				continue
			}
			if prelude != nil {
				raw, _ := json.Marshal(sc)
				rp := &harness.Replay{Engine: en, Property: *prop, Seed: seed, Index: fv.Index, Scenario: raw, Prelude: prelude, Violation: *v,
					Note: "the violation depends on state left behind in the process by the prelude scenarios (not minimised)"}
				if tx, ok := e.(harness.Texter); ok {
					rp.Program = strings.Split(tx.Text(sc), "\n")
				}
				path := filepath.Join(outDir, fmt.Sprintf("%s-%s-seed%d-idx%d-%s.json", *prop, en, seed, fv.Index, sanitize(v.Class)))
				if err := harness.WriteReplay(path, rp); err != nil {
					fmt.Fprintln(os.Stderr, err)
					infra = true
					continue
				}
				fmt.Printf("VIOLATION property=%s replay=%s\n", *prop, path)
				fmt.Printf("  %s [%s]: %s\n", v.Class, v.Sig, firstLine(v.Detail))
				violations++
				continue
			}
			budget := 400
			if *tier == "thorough" {
				budget = 1500
			}
			msc, mo, useSched := minimise(e, sc, *v, o, budget)
			mv := harness.FindSame(mo, *v)
			raw, _ := json.Marshal(msc)
			// final run with log for the trace
			final := e.Exec(msc, harness.ExecOpts{Schedule: mo.Decisions, UseSched: useSched, KeepLog: true})
			rp := &harness.Replay{Engine: en, Property: *prop, Seed: seed, Index: fv.Index, Scenario: raw,
				Schedule: mo.Decisions, UseSched: useSched, Violation: *mv, LogHash: fmt.Sprintf("%016x", final.LogHash), Trace: tail(final.Trace, 400)}
			if tx, ok := e.(harness.Texter); ok {
				rp.Program = strings.Split(tx.Text(msc), "\n")
			}
			path := filepath.Join(outDir, fmt.Sprintf("%s-%s-seed%d-idx%d-%s.json", *prop, en, seed, fv.Index, sanitize(v.Class)))
			if err := harness.WriteReplay(path, rp); err != nil {
				fmt.Fprintln(os.Stderr, err)
				infra = true
				continue
			}
			fmt.Printf("VIOLATION property=%s replay=%s\n", *prop, path)
			fmt.Printf("  %s [%s]: %s\n", mv.Class, mv.Sig, firstLine(mv.Detail))
			violations++
		}
	}

	// 3. mode B: real goroutines under the race detector (uninstrumented tree)
	var raceSummaries []map[string]interface{}
	for _, en := range cfg.RaceEngines {
		runs := cfg.RaceRuns
		secs := 40
		if *tier == "thorough" {
			runs *= 40
			secs = 600
		}
		if *runsOverride > 0 {
			runs = *runsOverride
		}
		if *secsOverride > 0 {
			secs = *secsOverride
		}
		sum, nv, bad := runRaceEngine(*prop, en, seed, *tier, runs, secs, tmpDir, outDir, known, knownPrinted)
		violations += nv
		if bad {
			infra = true
		}
		if sum != nil {
			raceSummaries = append(raceSummaries, sum)
			if ev, ok := sum["evaluations"].(int64); ok {
				totalEval += ev
			}
			if d, ok := sum["distinct_nontrivial"].(int); ok {
				totalDistinct += d
			}
		}
	}

	wall := time.Since(start).Seconds()
	if !*noEvidence {
		info := harness.EngineInfo{}
		if len(summaries) > 0 {
			info = summaries[0].Info
		}
		rules := []string{}
		var assumptions []string
		for _, s := range summaries {
			rules = append(rules, s.Name+": "+s.Info.Rule)
			assumptions = append(assumptions, s.Info.Assumptions...)
		}
		kf := []string{}
		for id := range knownPrinted {
			kf = append(kf, id)
		}
		sort.Strings(kf)
		if totalDistinct < 0 {
			totalDistinct = 0
		}
		if len(allSamples) == 0 {
			allSamples = append(allSamples, "no non-trivial run")
		}
		ev := map[string]interface{}{
			"property_id": *prop,
			"tier":        *tier,
			"seed":        int64(seed & 0x7fffffffffffffff),
			"level":       cfg.Level,
			"coverage": map[string]interface{}{
				"evaluations":         totalEval,
				"distinct_nontrivial": totalDistinct,
				"rule":                strings.Join(rules, " || "),
				"samples":             allSamples,
				"engines":             summaries,
				"race_detector_mode":  raceSummaries,
				"simulated_time_unit": info.TimeUnit,
				"known_findings_seen": kf,
			},
			"assumptions": assumptions,
			"wall_s":      wall,
			"violations":  violations,
		}
		b, _ := json.MarshalIndent(ev, "", " ")
		os.MkdirAll(filepath.Join(vdir, "evidence"), 0o755)
		if err := os.WriteFile(filepath.Join(vdir, "evidence", *prop+".json"), b, 0o644); err != nil {
			fmt.Fprintln(os.Stderr, err)
			return 2
		}
	}
	if violations > 0 {
		return 1
	}
	if infra {
		fmt.Fprintln(os.Stderr, "check could not be completed (infrastructure problem, see above)")
		return 2
	}
	fmt.Printf("OK property=%s runs=%d distinct_nontrivial=%d wall=%.1fs\n", *prop, totalEval, totalDistinct, wall)
	return 0
}

func minimise(e harness.Engine, sc interface{}, v harness.Violation, first *harness.Outcome, budget int) (interface{}, *harness.Outcome, bool) {
	msc, mo, _ := harness.Minimise(e, sc, v, first, budget)
	use := mo.Probes != nil && mo.Probes["minimised_schedule"] == 1
	return msc, mo, use
}

func tail(s []string, n int) []string {
	if len(s) > n {
		return s[len(s)-n:]
	}
	return s
}

func sanitize(s string) string {
	var b strings.Builder
	for _, c := range s {
		if c >= 'a' && c <= 'z' || c >= 'A' && c <= 'Z' || c >= '0' && c <= '9' || c == '-' {
			b.WriteRune(c)
		} else {
			b.WriteByte('_')
		}
	}
	return b.String()
}

func firstLine(s string) string {
	if i := strings.IndexByte(s, '\n'); i >= 0 {
		s = s[:i]
	}
	if len(s) > 300 {
		s = s[:300]
	}
	return s
}

func runWorkers(engine string, seed uint64, tier string, nw, runs, secs int, tmpDir string, hashN int, extraEnv []string) ([]*workResult, error) {
	self, err := os.Executable()
	if err != nil {
		return nil, err
	}
	var wg sync.WaitGroup
	results := make([]*workResult, nw)
	errs := make([]error, nw)
	tag := fmt.Sprintf("%s-%d-%d", engine, nw, time.Now().UnixNano())
	for w := 0; w < nw; w++ {
		w := w
		wg.Add(1)
		go func() {
			defer wg.Done()
			out := filepath.Join(tmpDir, fmt.Sprintf("w-%s-%d.json", tag, w))
			cmd := exec.Command(self, "work", "-engine", engine, "-seed", fmt.Sprint(seed), "-tier", tier,
				"-w", fmt.Sprint(w), "-n", fmt.Sprint(nw), "-runs", fmt.Sprint(runs), "-secs", fmt.Sprint(secs), "-out", out, "-hashn", fmt.Sprint(hashN))
			cmd.Env = append(os.Environ(), extraEnv...)
			cmd.Stderr = os.Stderr
			cmd.Stdout = os.Stderr
			done := make(chan error, 1)
			go func() { done <- cmd.Run() }()
			select {
			case err := <-done:
				if err != nil {
					errs[w] = fmt.Errorf("worker %d: %v", w, err)
					return
				}
			case <-time.After(time.Duration(secs+120) * time.Second):
				cmd.Process.Kill()
				errs[w] = fmt.Errorf("worker %d: watchdog timeout", w)
				return
			}
			b, err := os.ReadFile(out)
			if err != nil {
				errs[w] = err
				return
			}
			var r workResult
			if err := json.Unmarshal(b, &r); err != nil {
				errs[w] = err
				return
			}
			results[w] = &r
		}()
	}
	wg.Wait()
	for _, e := range errs {
		if e != nil {
			return nil, e
		}
	}
	return results, nil
}

// ---------------------------------------------------------------- replay

func runReplay(rp *harness.Replay) (*harness.Outcome, interface{}, error) {
	e := harness.Get(rp.Engine)
	if e == nil {
		return nil, nil, fmt.Errorf("engine %q not linked", rp.Engine)
	}
	sc, err := e.Decode(rp.Scenario)
	if err != nil {
		return nil, nil, err
	}
	if err := e.Prepare([]interface{}{sc}); err != nil {
		return nil, nil, err
	}
	for _, raw := range rp.Prelude {
		if psc, err := e.Decode(raw); err == nil {
			if err := e.Prepare([]interface{}{psc}); err == nil {
				harness.SafeExec(e, psc, harness.ExecOpts{})
			}
		}
	}
	o := e.Exec(sc, harness.ExecOpts{Schedule: rp.Schedule, UseSched: rp.UseSched, KeepLog: true})
	if o.Infra != "" {
		return nil, nil, fmt.Errorf("replay could not be judged: %s", o.Infra)
	}
	return o, sc, nil
}

func cmdReplay(args []string) int {
	fs := flag.NewFlagSet("replay", flag.ExitOnError)
	verbose := fs.Bool("v", false, "print the event trace")
	fs.Parse(args)
	if fs.NArg() != 1 {
		fmt.Fprintln(os.Stderr, "usage: sim replay [-v] <file>")
		return 2
	}
	path := fs.Arg(0)
	rp, err := harness.ReadReplay(path)
	if err != nil {
		fmt.Fprintln(os.Stderr, err)
		return 2
	}
	if strings.HasPrefix(rp.Engine, "race-") {
		bin, err := raceBinary()
		if err != nil {
			fmt.Fprintln(os.Stderr, err)
			return 2
		}
		cmd := exec.Command(bin, "replayrace", path)
		cmd.Env = append(os.Environ(), "GORACE=halt_on_error=1 exitcode=66", "GOMAXPROCS=16")
		outb, err := cmd.CombinedOutput()
		if err == nil {
			fmt.Printf("replay of %s: no data race and no violation in 20 runs\n", path)
			return 0
		}
		fmt.Printf("VIOLATION property=%s replay=%s\n", rp.Property, path)
		fmt.Printf("  %s\n", tailString(string(outb), 4000))
		return 1
	}
	o, _, err := runReplay(rp)
	if err != nil {
		fmt.Fprintln(os.Stderr, err)
		return 2
	}
	if *verbose {
		for _, l := range o.Trace {
			fmt.Println(l)
		}
	}
	hash := fmt.Sprintf("%016x", o.LogHash)
	if v := harness.FindSame(o, rp.Violation); v != nil {
		fmt.Printf("VIOLATION property=%s replay=%s\n", rp.Property, path)
		fmt.Printf("  %s [%s]: %s\n", v.Class, v.Sig, v.Detail)
		if rp.LogHash != "" && rp.LogHash != hash {
			fmt.Printf("  note: event-log hash %s differs from recorded %s (code changed since the file was written?)\n", hash, rp.LogHash)
		} else {
			fmt.Printf("  event-log hash %s matches the recorded run\n", hash)
		}
		return 1
	}
	if len(o.Violations) > 0 {
		v := o.Violations[0]
		fmt.Printf("VIOLATION property=%s replay=%s\n", rp.Property, path)
		fmt.Printf("  (different from the recorded one) %s [%s]: %s\n", v.Class, v.Sig, v.Detail)
		return 1
	}
	fmt.Printf("replay of %s: no violation (log hash %s)\n", path, hash)
	return 0
}

// ---------------------------------------------------------------- selftest

// selftest: determinism of every engine across processes and GOMAXPROCS.
func cmdSelftest(args []string) int {
	fs := flag.NewFlagSet("selftest", flag.ExitOnError)
	engine := fs.String("engine", "", "engine (default all)")
	n := fs.Int("n", 64, "indices per engine")
	fs.Parse(args)
	seed := envSeed()
	tmpDir, _ := os.MkdirTemp("", "simself-")
	defer os.RemoveAll(tmpDir)
	names := harness.Names()
	if *engine != "" {
		names = []string{*engine}
	}
	bad := 0
	for _, en := range names {
		ref := map[string]string{}
		total := 0
		for _, gmp := range []string{"1", "4", "16"} {
			for rep := 0; rep < 2; rep++ {
				nw := 1 + rep*3 // 1 worker, then 4 workers
				rs, err := runWorkers(en, seed, "quick", nw, *n, 300, tmpDir, *n, []string{"GOMAXPROCS=" + gmp})
				if err != nil {
					fmt.Fprintln(os.Stderr, err)
					return 2
				}
				for _, r := range rs {
					for k, v := range r.Hashes {
						total++
						if old, ok := ref[k]; ok && old != v {
							fmt.Printf("NONDETERMINISM engine=%s index=%s hash %s vs %s (GOMAXPROCS=%s workers=%d)\n", en, k, old, v, gmp, nw)
							bad++
						} else {
							ref[k] = v
						}
					}
				}
			}
		}
		fmt.Printf("selftest engine=%s indices=%d executions=%d mismatches=%d\n", en, len(ref), total, bad)
	}
	if bad > 0 {
		return 2
	}
	return 0
}

// gen prints scenario idx of an engine (debugging aid).
func cmdGen(args []string) int {
	fs := flag.NewFlagSet("gen", flag.ExitOnError)
	engine := fs.String("engine", "", "")
	idx := fs.Int("idx", 0, "")
	tier := fs.String("tier", "quick", "")
	run := fs.Bool("run", false, "also execute it and print the outcome")
	srcOnly := fs.Bool("src", false, "print only the rendered program text")
	fs.Parse(args)
	e := harness.Get(*engine)
	if e == nil {
		return 2
	}
	sc := e.Gen(envSeed(), *idx, *tier)
	if *srcOnly {
		if tx, ok := e.(harness.Texter); ok {
			fmt.Println(tx.Text(sc))
		}
		return 0
	}
	b, _ := json.MarshalIndent(sc, "", " ")
	fmt.Println(string(b))
	if *run {
		if err := e.Prepare([]interface{}{sc}); err != nil {
			fmt.Println("prepare:", err)
			return 2
		}
		o := e.Exec(sc, harness.ExecOpts{KeepLog: true})
		for _, l := range o.Trace {
			fmt.Println(l)
		}
		ob, _ := json.MarshalIndent(map[string]interface{}{"violations": o.Violations, "shape": o.Shape, "probes": o.Probes, "steps": o.Steps, "infra": o.Infra}, "", " ")
		fmt.Println(string(ob))
	}
	return 0
}

// triage runs scenarios in-process and prints every distinct violation
// signature with its count and one example (development aid).
func cmdTriage(args []string) int {
	fs := flag.NewFlagSet("triage", flag.ExitOnError)
	engine := fs.String("engine", "", "")
	runs := fs.Int("runs", 1000, "")
	tier := fs.String("tier", "quick", "")
	show := fs.String("show", "", "print the scenario source of the first run matching this signature substring")
	fs.Parse(args)
	e := harness.Get(*engine)
	if e == nil {
		return 2
	}
	seed := envSeed()
	count := map[string]int{}
	example := map[string]string{}
	shown := false
	for idx := 0; idx < *runs; idx += 64 {
		var batch []interface{}
		for j := idx; j < idx+64 && j < *runs; j++ {
			batch = append(batch, e.Gen(seed, j, *tier))
		}
		if err := e.Prepare(batch); err != nil {
			fmt.Println("prepare:", err)
			return 2
		}
		for bi, sc := range batch {
			o := e.Exec(sc, harness.ExecOpts{})
			if o.Infra != "" {
				count["INFRA "+o.Infra]++
			}
			for _, v := range o.Violations {
				k := v.Class + " [" + v.Sig + "]"
				count[k]++
				if _, ok := example[k]; !ok {
					example[k] = fmt.Sprintf("idx %d: %s", idx+bi, firstLine(v.Detail))
				}
				if *show != "" && !shown && strings.Contains(k, *show) {
					shown = true
					b, _ := json.Marshal(sc)
					fmt.Printf("SCENARIO idx=%d %s\n%s\n", idx+bi, k, b)
				}
				break
			}
		}
	}
	keys := make([]string, 0, len(count))
	for k := range count {
		keys = append(keys, k)
	}
	sort.Slice(keys, func(i, j int) bool { return count[keys[i]] > count[keys[j]] })
	for _, k := range keys {
		fmt.Printf("%6d %s\n        %s\n", count[k], k, example[k])
	}
	return 0
}

// ---------------------------------------------------------------- mode B

func raceBinary() (string, error) {
	dir := os.Getenv("VERIF_BUILD_DIR")
	if dir == "" {
		return "", fmt.Errorf("VERIF_BUILD_DIR not set")
	}
	bin := filepath.Join(dir, "sim-race")
	if _, err := os.Stat(bin); err != nil {
		cmd := exec.Command(filepath.Join(verifDir(), "build.sh"), "race")
		cmd.Stderr = os.Stderr
		if err := cmd.Run(); err != nil {
			return "", fmt.Errorf("building the race-detector binary failed: %v", err)
		}
	}
	return bin, nil
}

func raceSig(report string) string {
	var fns []string
	for _, l := range strings.Split(report, "\n") {
		t := strings.TrimSpace(l)
		if strings.HasPrefix(l, "  ") && strings.HasSuffix(t, ")") && strings.Contains(t, "gpython") && !strings.Contains(t, "/zzverif/") {
			if i := strings.LastIndex(t, "/"); i >= 0 {
				t = t[i+1:]
			}
			if i := strings.LastIndex(t, "("); i >= 0 {
				t = t[:i]
			}
			dup := false
			for _, f := range fns {
				if f == t {
					dup = true
				}
			}
			if !dup {
				fns = append(fns, t)
			}
			if len(fns) == 2 {
				break
			}
		}
	}
	return "race|" + strings.Join(fns, "|")
}

func runRaceEngine(prop, en string, seed uint64, tier string, runs, secs int, tmpDir, outDir string, known []harness.KnownFinding, knownPrinted map[string]bool) (map[string]interface{}, int, bool) {
	bin, err := raceBinary()
	if err != nil {
		fmt.Fprintln(os.Stderr, err)
		return nil, 0, true
	}
	e := harness.Get(en)
	if e == nil {
		fmt.Fprintln(os.Stderr, "engine not linked:", en)
		return nil, 0, true
	}
	start := time.Now()
	nw := 4
	type wres struct {
		res      *workResult
		race     string
		scenario []byte
		err      error
	}
	out := make([]wres, nw)
	var wg sync.WaitGroup
	for w := 0; w < nw; w++ {
		w := w
		wg.Add(1)
		go func() {
			defer wg.Done()
			of := filepath.Join(tmpDir, fmt.Sprintf("race-%s-%d.json", en, w))
			pf := filepath.Join(tmpDir, fmt.Sprintf("race-%s-%d.progress", en, w))
			ef := filepath.Join(tmpDir, fmt.Sprintf("race-%s-%d.stderr", en, w))
			errFile, _ := os.Create(ef)
			cmd := exec.Command(bin, "work", "-engine", en, "-seed", fmt.Sprint(seed), "-tier", tier, "-w", fmt.Sprint(w), "-n", fmt.Sprint(nw), "-runs", fmt.Sprint(runs), "-secs", fmt.Sprint(secs), "-out", of)
			cmd.Env = append(os.Environ(), "GORACE=halt_on_error=1 exitcode=66", "VERIF_RACE_PROGRESS="+pf, "GOMAXPROCS=16")
			cmd.Stderr = errFile
			cmd.Stdout = errFile
			done := make(chan error, 1)
			go func() { done <- cmd.Run() }()
			var runErr error
			select {
			case runErr = <-done:
			case <-time.After(time.Duration(secs+180) * time.Second):
				cmd.Process.Kill()
				runErr = fmt.Errorf("watchdog timeout")
			}
			errFile.Close()
			report, _ := os.ReadFile(ef)
			if runErr != nil {
				if strings.Contains(string(report), "DATA RACE") {
					out[w].race = string(report)
					out[w].scenario, _ = os.ReadFile(pf)
					return
				}
				out[w].err = fmt.Errorf("race worker %d: %v: %s", w, runErr, tailString(string(report), 2000))
				return
			}
			b, err := os.ReadFile(of)
			if err != nil {
				out[w].err = err
				return
			}
			var r workResult
			if err := json.Unmarshal(b, &r); err != nil {
				out[w].err = err
				return
			}
			out[w].res = &r
		}()
	}
	wg.Wait()
	violations := 0
	infra := false
	var evals int64
	shapes := map[uint64]bool{}
	probes := map[string]int64{}
	var samples []json.RawMessage
	reported := map[string]bool{}
	for w, o := range out {
		if o.err != nil {
			fmt.Fprintln(os.Stderr, o.err)
			infra = true
			continue
		}
		if o.race != "" {
			v := harness.Violation{Class: "data-race", Sig: raceSig(o.race), Detail: tailString(o.race, 6000)}
			if reported[v.Sig] {
				continue
			}
			reported[v.Sig] = true
			if k := harness.MatchKnown(known, prop, en, v); k != nil {
				if !knownPrinted[k.ID] {
					knownPrinted[k.ID] = true
					fmt.Printf("KNOWN-FINDING: property=%s %s [%s]\n", prop, k.What, k.ID)
				}
				continue
			}
			rp := &harness.Replay{Engine: en, Property: prop, Seed: seed, Index: w, Scenario: o.scenario, Violation: v, Note: "race-detector mode: replay re-runs the scenario up to 20 times in the -race binary"}
			path := filepath.Join(outDir, fmt.Sprintf("%s-%s-seed%d-w%d-data-race.json", prop, en, seed, w))
			if len(o.scenario) == 0 {
				rp.Scenario = json.RawMessage("null")
			}
			if err := harness.WriteReplay(path, rp); err != nil {
				fmt.Fprintln(os.Stderr, err)
				infra = true
				continue
			}
			fmt.Printf("VIOLATION property=%s replay=%s\n", prop, path)
			fmt.Printf("  data-race [%s]: the Go race detector reported a data race (report in the replay file)\n", v.Sig)
			violations++
			continue
		}
		evals += o.res.Evaluations
		for _, s := range o.res.Shapes {
			shapes[s] = true
		}
		for k, v := range o.res.Probes {
			probes[k] += v
		}
		for _, s := range o.res.Samples {
			if len(samples) < 2 {
				samples = append(samples, s)
			}
		}
		for _, m := range o.res.Infra {
			fmt.Fprintln(os.Stderr, "infra:", en, m)
			infra = true
		}
		for _, fv := range o.res.Violations {
			key := fv.Violation.Class + "|" + fv.Violation.Sig
			if reported[key] {
				continue
			}
			reported[key] = true
			rp := &harness.Replay{Engine: en, Property: prop, Seed: seed, Index: fv.Index, Scenario: fv.Scenario, Violation: fv.Violation}
			path := filepath.Join(outDir, fmt.Sprintf("%s-%s-seed%d-idx%d-%s.json", prop, en, seed, fv.Index, sanitize(fv.Violation.Class)))
			harness.WriteReplay(path, rp)
			fmt.Printf("VIOLATION property=%s replay=%s\n", prop, path)
			fmt.Printf("  %s [%s]: %s\n", fv.Violation.Class, fv.Violation.Sig, firstLine(fv.Violation.Detail))
			violations++
		}
	}
	wall := time.Since(start).Seconds()
	fmt.Printf("engine=%s (race detector, real goroutines) runs=%d distinct=%d wall=%.1fs\n", en, evals, len(shapes), wall)
	sum := map[string]interface{}{
		"engine": en, "evaluations": evals, "distinct_nontrivial": len(shapes), "probes": probes, "wall_s": wall,
		"info": e.Describe(), "samples": samples, "deterministic": false,
	}
	return sum, violations, infra
}

func tailString(s string, n int) string {
	if len(s) > n {
		return s[len(s)-n:]
	}
	return s
}

// replayRace re-runs a race-mode scenario (called in the -race binary).
func cmdReplayRace(args []string) int {
	if len(args) != 1 {
		return 2
	}
	rp, err := harness.ReadReplay(args[0])
	if err != nil {
		fmt.Fprintln(os.Stderr, err)
		return 2
	}
	e := harness.Get(rp.Engine)
	if e == nil {
		return 2
	}
	sc, err := e.Decode(rp.Scenario)
	if err != nil || string(rp.Scenario) == "null" {
		fmt.Fprintln(os.Stderr, "replay file has no scenario")
		return 2
	}
	bad := 0
	for i := 0; i < 20; i++ {
		o := e.Exec(sc, harness.ExecOpts{})
		if len(o.Violations) > 0 {
			fmt.Printf("%s: %s\n", o.Violations[0].Class, o.Violations[0].Detail)
			bad = 1
			break
		}
	}
	racepar.Cleanup()
	return bad
}

// reproduceWithHistory re-runs a worker's preceding scenarios followed by the
// failing one in a child process (`sim replayhist`), with growing history.
func reproduceWithHistory(e harness.Engine, en string, seed uint64, tier string, fv foundViolation, nw int) ([]json.RawMessage, *harness.Violation) {
	self, err := os.Executable()
	if err != nil {
		return nil, nil
	}
	for _, k := range []int{1, 2, 4, 8, 16, 32, 64} {
		var prelude []json.RawMessage
		for j := k; j >= 1; j-- {
			idx := fv.Index - j*nw
			if idx < 0 {
				continue
			}
			b, _ := json.Marshal(e.Gen(seed, idx, tier))
			prelude = append(prelude, b)
		}
		if len(prelude) == 0 {
			continue
		}
		rp := &harness.Replay{Engine: en, Property: e.Property(), Seed: seed, Index: fv.Index, Scenario: fv.Scenario, Prelude: prelude, Violation: fv.Violation}
		tmp, err := os.CreateTemp("", "simhist-*.json")
		if err != nil {
			return nil, nil
		}
		tmp.Close()
		defer os.Remove(tmp.Name())
		if harness.WriteReplay(tmp.Name(), rp) != nil {
			return nil, nil
		}
		cmd := exec.Command(self, "replay", tmp.Name())
		cmd.Env = os.Environ()
		out, _ := cmd.CombinedOutput()
		if cmd.ProcessState != nil && cmd.ProcessState.ExitCode() == 1 && strings.Contains(string(out), "["+fv.Violation.Sig+"]") {
			v := fv.Violation
			return prelude, &v
		}
	}
	return nil, nil
}
