// Package racepar is mode B of C08 / C18: the same kinds of scenarios as the
// cooperative engines, but on free-running goroutines (GOMAXPROCS=16) in a
// binary built with the Go race detector from the UNINSTRUMENTED tree.  It is
// not deterministic simulation - the schedule is the Go runtime's - and
// decides only the "no data race" clauses: a happens-before race is a
// property of the synchronisation, not of one schedule, and the detector has
// no false positives.  A race report terminates the worker process (exit 66);
// the driver turns that into the violation.
package racepar

import (
	"encoding/json"
	"fmt"
	"os"
	"strings"
	"sync"

	"github.com/go-python/gpython/py"
	gprepl "github.com/go-python/gpython/repl"
	"github.com/go-python/gpython/simrt"
	"github.com/go-python/gpython/zzverif/engines/isolation"
	"github.com/go-python/gpython/zzverif/gen"
	"github.com/go-python/gpython/zzverif/harness"
	"github.com/go-python/gpython/zzverif/pyhost"
)

type Scenario struct {
	Kind    string              `json:"kind"` // contexts | compile | repl
	Progs   []isolation.Program `json:"progs,omitempty"`
	Shared  bool                `json:"shared,omitempty"`
	Sources []string            `json:"sources,omitempty"`
	N       int                 `json:"n"`
	Lines   [][]string          `json:"lines,omitempty"`
}

type Engine struct{ name, prop string }

func init() {
	harness.Register(Engine{"race-contexts", "C08"})
	harness.Register(Engine{"race-compile", "C18"})
}

func (e Engine) Name() string     { return e.name }
func (e Engine) Property() string { return e.prop }

func (e Engine) Gen(seed uint64, idx int, tier string) interface{} {
	r := simrt.NewRand(simrt.Mix(seed, 0xb0, uint64(idx)))
	if e.name == "race-compile" {
		sc := &Scenario{Kind: "compile", N: 4 + r.Intn(13)}
		ns := 1 + r.Intn(3)
		for i := 0; i < ns; i++ {
			sc.Sources = append(sc.Sources, gen.GenScope(simrt.NewRand(r.Uint64()), 2+r.Intn(2)).Render())
		}
		// literal-heavy modules, a different one per goroutine
		if r.Chance(1, 2) {
			for i := 0; i < 2+r.Intn(3); i++ {
				sc.Sources = append(sc.Sources, gen.LitModule(simrt.NewRand(r.Uint64()), r.Chance(3, 4)))
			}
		}
		// sources the compiler rejects (after parsing): the error objects, with
		// the file name and line they carry, belong to one compilation each
		if r.Chance(1, 2) {
			for i := 0; i < 1+r.Intn(2); i++ {
				bad := isolation.BadSources[r.Intn(len(isolation.BadSources))]
				if r.Chance(1, 3) {
					// truncated input (error raised by the lexer / parser at end of input)
					bad = []string{"x = (\n", "if x:\n", "def f(a,\n", "s = \"\"\"abc\n", "v = [1,\n  2,\n", "class C:\n"}[r.Intn(6)]
				}
				sc.Sources = append(sc.Sources, strings.Repeat("\n", r.Intn(4))+bad)
			}
		}
		return sc
	}
	if r.Chance(1, 5) && !harness.Excluded("race-contexts")["repl"] {
		sc := &Scenario{Kind: "repl", N: 2 + r.Intn(4)}
		for c := 0; c < sc.N; c++ {
			var ls []string
			for i := 0; i < 3+r.Intn(5); i++ {
				switch r.Intn(3) {
				case 0:
					ls = append(ls, fmt.Sprintf("x%d = %d", i, c*100+i))
				case 1:
					ls = append(ls, fmt.Sprintf("%d + %d", c, i))
				default:
					ls = append(ls, fmt.Sprintf("for i in range(%d):", 1+r.Intn(3)), "    y = i", "")
				}
			}
			sc.Lines = append(sc.Lines, ls)
		}
		return sc
	}
	iso := isolation.Engine{}.Gen(seed, idx, tier).(*isolation.Scenario)
	return &Scenario{Kind: "contexts", Progs: iso.Progs, Shared: iso.SharedCode, N: len(iso.Progs)}
}

func (e Engine) Decode(raw json.RawMessage) (interface{}, error) {
	var sc Scenario
	if err := json.Unmarshal(raw, &sc); err != nil {
		return nil, err
	}
	return &sc, nil
}

func (Engine) Prepare(batch []interface{}) error { return nil }

func (Engine) Reseed(sci interface{}, k uint64) interface{} { return sci }

func (Engine) Shrink(sci interface{}) []interface{} { return nil }

func (e Engine) Describe() harness.EngineInfo {
	return harness.EngineInfo{
		Rule:        "mode B (NOT deterministic simulation; real goroutines under the Go race detector, uninstrumented tree): race-contexts = the isolation engine's scenarios (2-4 contexts writing/reading every reachable piece of per-context state, 1 in 5 with one shared code object; a source module registered process-wide anew for every scenario and imported by the contexts) with one goroutine per context running in parallel, or 2-5 REPL sessions on distinct contexts fed in parallel; race-compile = 4-16 goroutines compiling 1-3 generated sources concurrently, dumps compared. distinct = distinct scenarios; every scenario is non-trivial (at least two goroutines)",
		Real:        []string{"everything: the unmodified tree built with -race"},
		Stubbed:     []string{"nothing (the schedule is the Go runtime's)"},
		Assumptions: []string{"a race report kills the worker (GORACE=halt_on_error=1 exitcode=66); the driver reports it with the report text and the scenario index that was running", "the detector finds only races that actually occur on the executed paths of the sampled scenarios"},
		TimeUnit:    "n/a (wall clock)",
	}
}

var libOnce sync.Once
var libPath string

// libDir is a real directory holding the source module the programs import
// (the uninstrumented tree reads the real file system).
func libDir() string {
	libOnce.Do(func() {
		d, err := os.MkdirTemp("", "verif-racelib-")
		if err == nil {
			os.WriteFile(d+"/shm.py", []byte("val = \"init0\"\nlst = []\ndct = {}\n"), 0o644)
			libPath = d
		}
	})
	return libPath
}

// Cleanup removes the temporary module directory.
func Cleanup() {
	if libPath != "" {
		os.RemoveAll(libPath)
	}
}

// excLoc renders the location an error returned by Compile carries.
func excLoc(err error) string {
	var e *py.Exception
	switch x := err.(type) {
	case *py.ExceptionInfo:
		e, _ = x.Value.(*py.Exception)
	case *py.Exception:
		e = x
	}
	if e == nil || e.Dict == nil {
		return "-"
	}
	return fmt.Sprint(e.Dict["filename"], ":", e.Dict["lineno"])
}

type uiNull struct{}

func (uiNull) SetPrompt(string) {}
func (uiNull) Print(string)     {}

func runOne(idx int, src string, code *py.Code) (trace []string, exc string) {
	s, err := pyhost.NewSession([]string{libDir()})
	if err != nil {
		return nil, "SETUP"
	}
	defer s.Close()
	if err := isolation.InitConf(s.Ctx, idx); err != nil {
		return nil, "SETUP"
	}
	defer func() {
		if r := recover(); r != nil {
			exc = "PANIC: " + fmt.Sprint(r)
		}
		trace = s.Trace
	}()
	if code != nil {
		_, err := s.Ctx.RunCode(code, s.Main.Globals, s.Main.Globals, nil)
		return s.Trace, pyhost.ExcClass(err)
	}
	return s.Trace, s.Run(src, "<prog>")
}

func (e Engine) Exec(sci interface{}, opt harness.ExecOpts) *harness.Outcome {
	sc := sci.(*Scenario)
	out := &harness.Outcome{}
	if f := os.Getenv("VERIF_RACE_PROGRESS"); f != "" {
		b, _ := json.Marshal(sc)
		os.WriteFile(f, b, 0o644)
	}
	switch sc.Kind {
	case "compile":
		dumps := make([]string, sc.N)
		one := func(g int) string {
			src := sc.Sources[g%len(sc.Sources)]
			code, err := py.Compile(src, fmt.Sprintf("<race%d>", g), py.ExecMode, 0, true)
			if err != nil {
				return "ERROR:" + pyhost.ExcClass(err) + " " + excLoc(err)
			}
			return pyhost.DumpCode(code)
		}
		var wg sync.WaitGroup
		for g := 0; g < sc.N; g++ {
			g := g
			wg.Add(1)
			go func() {
				defer wg.Done()
				dumps[g] = one(g)
			}()
		}
		wg.Wait()
		for g := 0; g < sc.N; g++ {
			if seq := one(g); dumps[g] != seq {
				if strings.HasPrefix(seq, "ERROR:") && strings.HasPrefix(dumps[g], "ERROR:") {
					// a source with two independent errors: which one is reported
					// (hence the line) follows the map order of the analysis even
					// when compiled alone - the property speaks about code objects.
					// Only a location the solo compilation never produces counts.
					seen := map[string]bool{seq: true}
					for k := 0; k < 200 && !seen[dumps[g]]; k++ {
						seen[one(g)] = true
					}
					if seen[dumps[g]] {
						out.Probe("rejected_source_error_choice_varies_alone")
						continue
					}
				}
				out.Violate("nondeterministic-code", "race|code", "concurrent compile %d (of source %d) gave %.200q, the same compilation alone gives %.200q", g, g%len(sc.Sources), dumps[g], seq)
			}
		}
		out.Probe("concurrent_compiles")
	case "repl":
		var wg sync.WaitGroup
		for c := 0; c < sc.N; c++ {
			c := c
			wg.Add(1)
			go func() {
				defer wg.Done()
				ctx := py.NewContext(py.ContextOpts{SysArgs: []string{"sim"}})
				defer ctx.Close()
				rp := gprepl.New(ctx)
				rp.SetUI(uiNull{})
				for _, l := range sc.Lines[c] {
					rp.Run(l)
				}
			}()
		}
		wg.Wait()
		out.Probe("parallel_repls")
	default:
		srcs := make([]string, len(sc.Progs))
		for i, p := range sc.Progs {
			if sc.Shared {
				srcs[i] = sc.Progs[0].Render()
			} else {
				srcs[i] = p.Render()
			}
		}
		// The parallel phase comes FIRST and gets its own freshly compiled code
		// object: anything a code object initialises lazily on first use must
		// be initialised while the contexts run concurrently, not beforehand
		// by the solo runs.
		var shared, sharedSolo *py.Code
		if sc.Shared {
			shared, _ = py.Compile(srcs[0], "<prog>", py.ExecMode, 0, true)
			sharedSolo, _ = py.Compile(srcs[0], "<prog>", py.ExecMode, 0, true)
		}
		isolation.RegisterScenarioModules()
		type res struct {
			t []string
			e string
		}
		solo := make([]res, len(srcs))
		par := make([]res, len(srcs))
		var wg sync.WaitGroup
		for i := range srcs {
			i := i
			wg.Add(1)
			go func() {
				defer wg.Done()
				par[i].t, par[i].e = runOne(i, srcs[i], shared)
			}()
		}
		wg.Wait()
		for i := range srcs {
			solo[i].t, solo[i].e = runOne(i, srcs[i], sharedSolo)
		}
		for i := range srcs {
			if d := pyhost.DiffTrace(par[i].t, solo[i].t); d != "" || par[i].e != solo[i].e {
				out.Violate("context-observes-another-context", "race|leak", "context %d in parallel differs from its solo run: %s (exc %q / %q)", i, d, par[i].e, solo[i].e)
			}
		}
		out.Probe("parallel_contexts")
		if sc.Shared {
			out.Probe("shared_code_object")
		}
	}
	b, _ := json.Marshal(sc)
	out.Shape = fmt.Sprintf("%x", simrt.MixStr(0, string(b)))
	out.LogHash = 0
	_ = strings.TrimSpace
	return out
}
