// Package compiledet is the C18 engine: the same (source, file name, mode)
// compiled many times under different simulator-chosen map orders, alone and
// interleaved with other compilations and with a running program, must give
// structurally identical code objects and leave nothing behind.
package compiledet

import (
	"encoding/json"
	"fmt"
	"os"
	"path/filepath"
	"sort"
	"strings"

	"github.com/go-python/gpython/py"
	"github.com/go-python/gpython/simrt"
	"github.com/go-python/gpython/simrt/simfs"
	"github.com/go-python/gpython/zzverif/gen"
	"github.com/go-python/gpython/zzverif/harness"
	"github.com/go-python/gpython/zzverif/pyhost"
)

type Item struct {
	Key   int            `json:"key"` // index into Sources
	Mode  string         `json:"mode"`
	Order simrt.MapOrder `json:"order"`
}

type Source struct {
	Name string `json:"name"`           // file name given to Compile
	Src  string `json:"src,omitempty"`  // inline source (generated programs)
	File string `json:"file,omitempty"` // or: path relative to the gpython tree
}

type Scenario struct {
	Sources []Source `json:"sources"`
	Tasks   [][]Item `json:"tasks"`
	Runner  string   `json:"runner,omitempty"` // program run concurrently in a context (its trace must equal its solo trace)
	Policy  string   `json:"policy"`
	PNum    int      `json:"pnum"`
	Depth   int      `json:"depth"`
	SSeed   uint64   `json:"sseed"`
}

type Engine struct{}

func init() { harness.Register(Engine{}) }

func (Engine) Name() string     { return "compiledet" }
func (Engine) Property() string { return "C18" }

var corpus []string // relative paths of .py files in the tree
var corpusRoot string

func loadCorpus() {
	if corpus != nil {
		return
	}
	corpusRoot = os.Getenv("VERIF_BUILD_DIR")
	if corpusRoot != "" {
		corpusRoot = filepath.Join(corpusRoot, "plain")
	} else {
		corpusRoot = "/repo"
	}
	filepath.Walk(corpusRoot, func(p string, info os.FileInfo, err error) error {
		if err != nil {
			return nil
		}
		if info.IsDir() {
			if info.Name() == ".git" || info.Name() == "zzverif" || info.Name() == "simrt" {
				return filepath.SkipDir
			}
			return nil
		}
		if strings.HasSuffix(p, ".py") && info.Size() < 200000 {
			rel, _ := filepath.Rel(corpusRoot, p)
			corpus = append(corpus, rel)
		}
		return nil
	})
	sort.Strings(corpus)
	if corpus == nil {
		corpus = []string{}
	}
}

func (s Source) text() (string, error) {
	if s.File == "" {
		return s.Src, nil
	}
	loadCorpus()
	b, err := os.ReadFile(filepath.Join(corpusRoot, s.File))
	return string(b), err
}

var exprs = []string{"[t for h, *t in d]", "{k: v for k, *v in d}", "[(a, b, c, e) for a, *b in x for *c, e in y]", "[i for i, (j, *k) in z]", "(lambda: [q for *q, r in s])()",
	"a + b * c", "[x for x in y if x]", "lambda a, b=1, *c, d, **e: (a, b, c, d, e)", "{k: v for k, v in z}", "f(a)(b)[c].d", "x if y else z", "(yield)", "not a or b and c < d <= e"}
var singles = []string{"x += 1\n", "x[i] += y\n", "x.y -= 2\n", "a, *b = c; b += [1]\n", "first, *rest = [1, 2, 3]\n", "for p, *q in r:\n    q += p\n\n", "[a, *b] = c\n", "x[0][1].z *= 3\n",
	"x = 1\n", "print(x)\n", "def f(a, b=2):\n    return a + b\n\n", "for i in range(3):\n    pass\n\n", "import os\n", "class C(B):\n    x = 1\n    def m(self):\n        return self.x\n\n", "a, *b = c\n"}

// reindent rewrites the leading 4-space indentation units of generated
// programs into another unit, so that concurrently compiled sources use
// different columns for the same nesting depth.
func reindent(src, unit string) string {
	lines := strings.Split(src, "\n")
	for i, l := range lines {
		n := 0
		for strings.HasPrefix(l[n*4:], "    ") {
			n++
		}
		if n > 0 {
			lines[i] = strings.Repeat(unit, n) + l[n*4:]
		}
	}
	return strings.Join(lines, "\n")
}

func (Engine) Gen(seed uint64, idx int, tier string) interface{} {
	loadCorpus()
	r := simrt.NewRand(simrt.Mix(seed, 0x18, uint64(idx)))
	sc := &Scenario{SSeed: r.Uint64()}
	nsrc := 1 + r.Intn(4)
	for i := 0; i < nsrc; i++ {
		switch x := r.Intn(10); {
		case x < 4 && len(corpus) > 0:
			f := corpus[r.Intn(len(corpus))]
			sc.Sources = append(sc.Sources, Source{Name: f, File: f})
		case x < 6:
			p := gen.GenScope(simrt.NewRand(r.Uint64()), 2+r.Intn(3))
			sc.Sources = append(sc.Sources, Source{Name: fmt.Sprintf("<gen%d>", i), Src: p.Render()})
		case x < 8:
			// the programs of the other engines' generators
			rr := simrt.NewRand(r.Uint64())
			var src string
			switch r.Intn(4) {
			case 0:
				src = gen.GenIter(rr, nil).Render()
			case 1:
				src = gen.GenCont(rr, nil).Render()
			case 2:
				ip := gen.GenImport(rr, false)
				src = ip.RenderMain() + ip.RenderAfter()
			default:
				ip := gen.GenImport(rr, false)
				files := ip.Files()
				var fnames []string
				for k := range files {
					fnames = append(fnames, k)
				}
				sort.Strings(fnames) // never Go's map order: generation is a function of the seed
				if len(fnames) > 0 {
					src = files[fnames[r.Intn(len(fnames))]]
				}
			}
			sc.Sources = append(sc.Sources, Source{Name: fmt.Sprintf("<other%d>", i), Src: src})
		case x == 8 && r.Chance(1, 2):
			// literal-heavy modules, well-formed and rejected ones: number and
			// string decoding has its own buffers and tables
			sc.Sources = append(sc.Sources, Source{Name: fmt.Sprintf("<lits%d>", i), Src: gen.LitModule(simrt.NewRand(r.Uint64()), r.Chance(2, 3))})
			if r.Chance(1, 2) {
				sc.Sources = append(sc.Sources, Source{Name: fmt.Sprintf("<lits%db>", i), Src: gen.LitModule(simrt.NewRand(r.Uint64()), r.Chance(1, 2))})
			}
		case x == 8:
			sc.Sources = append(sc.Sources, Source{Name: "<expr>", Src: exprs[r.Intn(len(exprs))]})
		default:
			if r.Chance(1, 3) {
				// the same small texts in exec mode
				sc.Sources = append(sc.Sources, Source{Name: "<snippet>", Src: singles[r.Intn(len(singles))] + "v = " + exprs[r.Intn(len(exprs))] + "\n"})
			} else {
				sc.Sources = append(sc.Sources, Source{Name: "<single>", Src: singles[r.Intn(len(singles))]})
			}
		}
	}
	for i := range sc.Sources {
		if sc.Sources[i].Src != "" && !strings.Contains(sc.Sources[i].Src, "\"\"\"") && r.Chance(1, 2) {
			sc.Sources[i].Src = reindent(sc.Sources[i].Src, []string{"\t", " ", "  ", "        ", "   "}[r.Intn(5)])
		}
	}
	nt := 1 + r.Intn(4)
	for t := 0; t < nt; t++ {
		var items []Item
		n := 1 + r.Intn(4)
		for i := 0; i < n; i++ {
			k := r.Intn(len(sc.Sources))
			mode := "exec"
			switch sc.Sources[k].Name {
			case "<expr>":
				mode = "eval"
			case "<single>":
				mode = "single"
			}
			items = append(items, Item{Key: k, Mode: mode, Order: simrt.MapOrder{Kind: r.Intn(4), K: r.Uint64()}})
		}
		sc.Tasks = append(sc.Tasks, items)
	}
	if r.Chance(1, 4) {
		// the same sources as files, compiled through a context's
		// ResolveAndCompile (the path imports and RunFile take)
		for t := range sc.Tasks {
			for i := range sc.Tasks[t] {
				if sc.Tasks[t][i].Mode == "exec" && r.Chance(2, 3) {
					sc.Tasks[t][i].Mode = "file"
				}
			}
		}
	}
	if r.Chance(1, 3) {
		sc.Runner = gen.GenScope(simrt.NewRand(r.Uint64()), 2).Render()
	} else if r.Chance(1, 4) {
		sc.Runner = builtinsRunner(r)
	}
	switch r.Intn(4) {
	case 0:
		sc.Policy, sc.PNum = "random", 1+r.Intn(40)
	case 1:
		sc.Policy, sc.Depth = "pct", 1+r.Intn(3)
	case 2:
		sc.Policy, sc.PNum = "quantum", 1+r.Intn(200)
	default:
		sc.Policy = "serial"
	}
	return sc
}

func (Engine) Decode(raw json.RawMessage) (interface{}, error) {
	var sc Scenario
	if err := json.Unmarshal(raw, &sc); err != nil {
		return nil, err
	}
	return &sc, nil
}

func (Engine) Prepare(batch []interface{}) error { return nil }

func (Engine) Reseed(sci interface{}, k uint64) interface{} {
	sc := *(sci.(*Scenario))
	sc.SSeed = simrt.Mix(sc.SSeed, k)
	return &sc
}

func clone(sc *Scenario) *Scenario {
	b, _ := json.Marshal(sc)
	var c Scenario
	json.Unmarshal(b, &c)
	return &c
}

func (Engine) Shrink(sci interface{}) []interface{} {
	sc := sci.(*Scenario)
	var out []interface{}
	for t := range sc.Tasks {
		if len(sc.Tasks) > 1 {
			c := clone(sc)
			c.Tasks = append(c.Tasks[:t], c.Tasks[t+1:]...)
			out = append(out, c)
		}
		for i := range sc.Tasks[t] {
			if len(sc.Tasks[t]) > 1 {
				c := clone(sc)
				c.Tasks[t] = append(c.Tasks[t][:i], c.Tasks[t][i+1:]...)
				out = append(out, c)
			}
			if sc.Tasks[t][i].Order.Kind > 1 {
				c := clone(sc)
				c.Tasks[t][i].Order = simrt.MapOrder{Kind: simrt.OrderDesc}
				out = append(out, c)
			}
		}
	}
	if sc.Runner != "" {
		c := clone(sc)
		c.Runner = ""
		out = append(out, c)
	}
	// halve inline sources line-wise
	for k, s := range sc.Sources {
		src, err := s.text()
		if err != nil {
			continue
		}
		lines := strings.Split(src, "\n")
		if len(lines) > 3 {
			for _, part := range [][]string{lines[:len(lines)/2], lines[len(lines)/2:]} {
				c := clone(sc)
				c.Sources[k] = Source{Name: s.Name, Src: strings.Join(part, "\n") + "\n"}
				out = append(out, c)
			}
		}
	}
	return out
}

func (Engine) Describe() harness.EngineInfo {
	return harness.EngineInfo{
		Rule:        "scenario = 1-4 sources (a .py file of the repository, a generated scoping program, an eval-mode expression or a single-mode statement) compiled by 1-4 simulated goroutines, each compile under its own map-order policy (asc/desc/rotation/seeded permutation), interleaved at every function entry and loop head of parser, symtable and compile by a seeded scheduler (random/PCT/quantum/serial); 1 in 3 scenarios also runs a program in a context concurrently. Baseline = the first compile of each key, alone, ascending order. distinct = distinct (sources, task scripts, schedule decisions) by hash; non-trivial = at least two compiles of the same key or two tasks",
		Real:        []string{"parser (lexer + yacc)", "symtable", "compile", "vm (runner task)"},
		Stubbed:     []string{"Go map iteration order -> simulator", "goroutine interleaving -> simulator (cooperative tasks, preemption at function entries / loop heads)"},
		Assumptions: []string{"two failing compiles of the same key are only required to fail with the same exception class", "data races proper (weak memory) are decided by the separate race-detector mode, not by the cooperative interleaving"},
		TimeUnit:    "compile-pipeline function entries + loop heads + VM instructions (scheduler steps)",
	}
}

// builtinsRunner: the compile / eval / exec builtins applied to the same text
// in different modes and orders, with known answers ("ka" lines: the two values
// must be equal).
func builtinsRunner(r *simrt.Rand) string {
	a, b := r.Intn(1000), r.Intn(1000)
	var sb strings.Builder
	sb.WriteString("from simlog import log, exc_name\ndef _t(f, *a):\n    try:\n        return f(*a)\n    except Exception as _e:\n        return exc_name(_e)\n")
	fmt.Fprintf(&sb, "T = \"%d + %d\"\nS = \"zq%d = %d\"\n", a, b, a, b)
	steps := []string{
		"exec(T)",
		fmt.Sprintf("log(\"ka\", _t(eval, T), %d)", a+b),
		"log(\"ka\", _t(eval, S), \"SyntaxError\")",
		"exec(S)",
		fmt.Sprintf("log(\"ka\", zq%d, %d)", a, b),
		fmt.Sprintf("log(\"ka\", eval(compile(T, \"<t>\", \"eval\")), %d)", a+b),
		"log(\"ka\", eval(compile(T, \"<t>\", \"exec\")), None)",
		"log(\"ka\", _t(compile, S, \"<t>\", \"eval\"), \"SyntaxError\")",
		fmt.Sprintf("log(\"ka\", _t(eval, T), %d)", a+b),
	}
	// the eval of S, exec of S etc. in a seeded order (zq is read only after exec(S))
	order := []int{0, 1, 2, 3, 4, 5, 6, 7, 8}
	if r.Chance(1, 2) {
		order = []int{1, 0, 8, 5, 6, 3, 2, 4, 7}
	}
	for _, i := range order {
		sb.WriteString(steps[i] + "\n")
	}
	return sb.String()
}

const cdDir = "/simcwd/cd"

var anchorSrc = "ANCHOR = 1\ndef anchor(a, b=2):\n    return a + b\n"

func filePath(k int) string { return fmt.Sprintf("%s/k%d.py", cdDir, k) }

// compileFile compiles a file of the simulated tree through the context.
func compileFile(ctx py.Context, name string) string {
	out, err := ctx.ResolveAndCompile(name, py.CompileOpts{UseSysPaths: true})
	if err != nil {
		return "ERROR:" + pyhost.ExcClass(err)
	}
	return pyhost.DumpCode(out.Code)
}

func mode(m string) py.CompileMode {
	switch m {
	case "eval":
		return py.EvalMode
	case "single":
		return py.SingleMode
	}
	return py.ExecMode
}

func compileOne(src, name, m string) string {
	code, err := py.Compile(src, name, mode(m), 0, true)
	if err != nil {
		return "ERROR:" + pyhost.ExcClass(err)
	}
	return pyhost.DumpCode(code)
}

func runSolo(src string) (trace []string, exc string) {
	s, err := pyhost.NewSession(nil)
	if err != nil {
		return nil, "SETUP"
	}
	defer s.Close()
	exc = s.Run(src, "<runner>")
	return s.Trace, exc
}

func mkSched(sc *Scenario) simrt.Scheduler {
	r := simrt.NewRand(sc.SSeed)
	switch sc.Policy {
	case "random":
		return &simrt.RandomSched{R: r, Num: uint64(sc.PNum), Den: 1000}
	case "pct":
		return simrt.NewPCT(r, sc.Depth, 20000)
	case "quantum":
		return &simrt.QuantumSched{R: r, Min: 1, Max: sc.PNum}
	}
	return simrt.DefaultSched{}
}

func (Engine) Exec(sci interface{}, opt harness.ExecOpts) *harness.Outcome {
	sc := sci.(*Scenario)
	out := &harness.Outcome{}
	texts := make([]string, len(sc.Sources))
	for i, s := range sc.Sources {
		t, err := s.text()
		if err != nil {
			out.Infra = "corpus: " + err.Error()
			return out
		}
		texts[i] = t
	}
	hasFile := false
	for _, items := range sc.Tasks {
		for _, it := range items {
			if it.Mode == "file" {
				hasFile = true
			}
		}
	}
	var fctx py.Context
	if hasFile {
		fs := simfs.New()
		fs.AddDir(cdDir)
		for i, t := range texts {
			fs.AddFile(filePath(i), t)
		}
		fs.AddFile(cdDir+"/anchor.py", anchorSrc)
		simfs.Install(fs)
		defer simfs.Install(nil)
		fctx = py.NewContext(py.ContextOpts{SysArgs: []string{"sim"}, SysPaths: []string{cdDir}})
		defer fctx.Close()
	}
	type key struct {
		k int
		m string
	}
	// baseline: every key alone, ascending order, plus the runner alone
	base := map[key]string{}
	var soloTrace []string
	var soloExc string
	{
		sim := simrt.New(simrt.Config{MaxSteps: 80000000})
		sim.Spawn("baseline", func() {
			for _, items := range sc.Tasks {
				for _, it := range items {
					kk := key{it.Key, it.Mode}
					if _, ok := base[kk]; !ok {
						if it.Mode == "file" {
							// the specification of a file compile: Compile of its content under its path
							base[kk] = compileOne(texts[it.Key], filePath(it.Key), "exec")
						} else {
							base[kk] = compileOne(texts[it.Key], sc.Sources[it.Key].Name, it.Mode)
						}
					}
				}
			}
			if sc.Runner != "" {
				soloTrace, soloExc = runSolo(sc.Runner)
			}
		})
		res := sim.Run()
		out.Steps += res.Steps
		if len(res.Panics) > 0 || res.Capped {
			out.Violate("panic", "panic|baseline", "baseline compile panicked or hung: %+v capped=%v", res.Panics, res.Capped)
			return out
		}
	}
	var sched simrt.Scheduler
	if opt.UseSched {
		sched = simrt.NewReplaySched(opt.Schedule)
	} else {
		sched = mkSched(sc)
	}
	sim := simrt.New(simrt.Config{MaxSteps: 200000000, Sched: sched, KeepLog: opt.KeepLog})
	type obs struct {
		task int
		it   Item
		dump string
	}
	var all []obs
	for ti, items := range sc.Tasks {
		ti, items := ti, items
		sim.Spawn(fmt.Sprintf("compile%d", ti), func() {
			for _, it := range items {
				o := it.Order
				simrt.Current().Order = &o
				simrt.Log("compile.begin", fmt.Sprintf("%d %s %s", it.Key, it.Mode, it.Order))
				var d string
				if it.Mode == "file" {
					d = compileFile(fctx, fmt.Sprintf("k%d", it.Key))
				} else {
					d = compileOne(texts[it.Key], sc.Sources[it.Key].Name, it.Mode)
				}
				simrt.Log("compile.end", fmt.Sprintf("%d %x", it.Key, simrt.MixStr(0, d)))
				all = append(all, obs{ti, it, d})
			}
		})
	}
	anchorGot, anchorWant := "", ""
	if hasFile {
		// one file with the same content in every scenario of this process,
		// requested before and after the others
		sim.Spawn("anchor", func() {
			anchorWant = compileOne(anchorSrc, cdDir+"/anchor.py", "exec")
			anchorGot = compileFile(fctx, "anchor")
		})
	}
	var runTrace []string
	var runExc string
	if sc.Runner != "" {
		sim.Spawn("runner", func() {
			runTrace, runExc = runSolo(sc.Runner)
		})
	}
	res := sim.Run()
	out.Steps += res.Steps
	out.Switches = res.Switches
	out.Decisions = res.Decisions
	out.LogHash = res.LogHash
	out.Capped = res.Capped
	if opt.KeepLog {
		for _, e := range res.Events {
			out.Trace = append(out.Trace, e.String())
		}
	}
	for _, p := range res.Panics {
		out.Violate("panic", "panic|"+firstLine(p.Value), "task %s: %s\n%s", p.Name, p.Value, p.Stack)
	}
	if res.Capped || res.Deadlock {
		out.Violate("hang", "hang", "interleaved compilation did not finish (capped=%v deadlock=%v)", res.Capped, res.Deadlock)
	}
	count := map[key]int{}
	for _, o := range all {
		kk := key{o.it.Key, o.it.Mode}
		count[kk]++
		b := base[kk]
		if o.dump == b {
			continue
		}
		be, oe := strings.HasPrefix(b, "ERROR:"), strings.HasPrefix(o.dump, "ERROR:")
		switch {
		case be != oe:
			out.Violate("nondeterministic-outcome", "outcome", "%s (%s): baseline %s, task %d under order %s %s", sc.Sources[o.it.Key].Name, o.it.Mode, head(b), o.task, o.it.Order, head(o.dump))
		case be && oe:
			out.Violate("nondeterministic-error", "errclass", "%s (%s): baseline %s, task %d under order %s %s", sc.Sources[o.it.Key].Name, o.it.Mode, b, o.task, o.it.Order, o.dump)
		default:
			sig := "code|interleaved"
			if len(sc.Tasks) == 1 && sc.Runner == "" {
				sig = "code|order"
			}
			out.Violate("nondeterministic-code", sig, "%s (%s): code object of task %d under order %s differs from the baseline: %s", sc.Sources[o.it.Key].Name, o.it.Mode, o.task, o.it.Order, firstDiffLine(b, o.dump))
		}
	}
	if hasFile && len(res.Panics) == 0 && !res.Capped {
		out.Probe("file_compiles_through_context")
		if anchorGot != anchorWant {
			out.Violate("nondeterministic-code", "code|file|anchor", "anchor.py compiled through ResolveAndCompile differs from Compile of its content: %s", firstDiffLine(anchorWant, anchorGot))
		}
	}
	if sc.Runner != "" && len(res.Panics) == 0 && !res.Capped {
		for _, l := range runTrace {
			f := strings.Fields(l)
			if len(f) == 3 && f[0] == "\"ka\"" && f[1] != f[2] {
				out.Violate("compile-builtin-wrong-mode-or-text", "runner|ka", "eval/exec/compile builtin gave %s where %s is the only possible answer (trace line %q)", f[1], f[2], l)
				break
			}
		}
		if d := pyhost.DiffTrace(runTrace, soloTrace); d != "" || runExc != soloExc {
			out.Violate("compilation-visible-to-running-context", "runner", "program running beside compilations behaved differently from its solo run: %s (exc %q vs %q)", d, runExc, soloExc)
		}
		out.Probe("runner_beside_compiles")
	}
	repeated := false
	for _, c := range count {
		if c > 1 {
			repeated = true
		}
	}
	if repeated {
		out.Probe("same_key_compiled_repeatedly")
	}
	if res.Switches > 2 {
		out.Probe("interleaved")
	}
	if repeated || len(sc.Tasks) > 1 {
		b, _ := json.Marshal(sc.Tasks)
		names := ""
		for _, s := range sc.Sources {
			names += s.Name + fmt.Sprint(len(s.Src)) + ","
		}
		out.Shape = fmt.Sprintf("%s|%s|%x", names, b, res.LogHash)
	}
	return out
}

func head(s string) string {
	if i := strings.IndexByte(s, '\n'); i >= 0 {
		return s[:i]
	}
	return s
}

func firstLine(s string) string {
	s = head(s)
	if len(s) > 100 {
		s = s[:100]
	}
	return s
}

func firstDiffLine(a, b string) string {
	la, lb := strings.Split(a, "\n"), strings.Split(b, "\n")
	for i := 0; i < len(la) && i < len(lb); i++ {
		if la[i] != lb[i] {
			return fmt.Sprintf("line %d:\n  %s\n  %s", i, la[i], lb[i])
		}
	}
	return fmt.Sprintf("lengths %d vs %d", len(la), len(lb))
}
