// Package repl is the C20 engine: the simulator plays the terminal.  A seeded
// program is cut into physical lines and fed to the real repl.REPL one line
// per event (blank line after every multi-line statement), with syntactically
// and dynamically erroneous statements injected; the reference session runs
// the same statements one by one through exec / eval mode.
package repl

import (
	"encoding/json"
	"fmt"
	"os"
	"sort"
	"strings"
	"syscall"

	"github.com/go-python/gpython/py"
	gprepl "github.com/go-python/gpython/repl"
	"github.com/go-python/gpython/repl/cli"
	"github.com/go-python/gpython/simrt"
	"github.com/go-python/gpython/simrt/simfs"
	"github.com/go-python/gpython/zzverif/harness"
	"github.com/go-python/gpython/zzverif/pyhost"
)

// Stmt is one statement of the session.
type Stmt struct {
	Kind    string   `json:"kind"`               // simple expr exprnone compound bracket triple backslash semi comment syntaxerr blocksyntaxerr runtimeerr
	Lines   []string `json:"lines"`              // physical lines
	Blank   int      `json:"blank"`              // extra blank lines fed after the statement (besides the terminator)
	BlankWS string   `json:"blank_ws,omitempty"` // what an extra blank line consists of ("" or whitespace only)
	Ticks   []int    `json:"ticks"`              // tick ids the statement contains (informational)
	// RefLines, if set, is the text the REFERENCE session executes instead of
	// Lines: identical except that expression statements nested in top-level
	// blocks (which the interactive compiler echoes) are wrapped in echo(...)
	RefLines []string `json:"ref_lines,omitempty"`
}

type Scenario struct {
	SwapAt int            `json:"swap_at,omitempty"` // the embedder registers a NEW UI for the same REPL / context before this statement (0: never)
	Stmts  []Stmt         `json:"stmts"`
	Order  simrt.MapOrder `json:"order"`
}

type Engine struct{}

func init() { harness.Register(Engine{}) }

func (Engine) Name() string     { return "repl" }
func (Engine) Property() string { return "C20" }

type sgen struct {
	r    *simrt.Rand
	tick int
	ind  string
}

func (g *sgen) tk(expr string) (string, int) {
	g.tick++
	return fmt.Sprintf("tk(%d, %s)", g.tick, expr), g.tick
}

func (g *sgen) v() string { return fmt.Sprintf("v%d", g.r.Intn(4)) }

func (g *sgen) intExpr() string {
	switch g.r.Intn(5) {
	case 0:
		return fmt.Sprint(g.r.Intn(10))
	case 1:
		return g.v() + " + " + fmt.Sprint(1+g.r.Intn(5))
	case 2:
		return g.v() + " * 2"
	case 3:
		return "len([" + g.v() + ", " + g.v() + "])"
	}
	return g.v()
}

func (g *sgen) comment() string {
	if g.r.Chance(1, 4) {
		return "  # c" + fmt.Sprint(g.r.Intn(100))
	}
	return ""
}

func (g *sgen) stmt() Stmt {
	r := g.r
	in := g.ind
	switch x := r.Intn(40); {
	case x < 6:
		e, t := g.tk(g.intExpr())
		return Stmt{Kind: "simple", Lines: []string{g.v() + " = " + e + g.comment()}, Ticks: []int{t}}
	case x < 10:
		e, t := g.tk(g.intExpr())
		return Stmt{Kind: "expr", Lines: []string{e + g.comment()}, Ticks: []int{t}}
	case x < 12:
		e, t := g.tk("None")
		return Stmt{Kind: "exprnone", Lines: []string{e}, Ticks: []int{t}}
	case x < 13:
		forms := []string{"'s%d'", "[%d, 'a']", "(%d, 2)", "%d == 3", "str(%d)"}
		e, t := g.tk(fmt.Sprintf(forms[r.Intn(len(forms))], r.Intn(9)))
		return Stmt{Kind: "expr", Lines: []string{e}, Ticks: []int{t}}
	case x < 16:
		c, t := g.tk(g.v() + " < 5")
		a, t2 := g.tk(g.intExpr())
		lines := []string{"if " + c + ":" + g.comment(), in + g.v() + " = " + a}
		ticks := []int{t, t2}
		if r.Chance(1, 2) {
			b, t3 := g.tk(g.intExpr())
			lines = append(lines, "else:", in+g.v()+" = "+b)
			ticks = append(ticks, t3)
		}
		return Stmt{Kind: "compound", Lines: lines, Ticks: ticks}
	case x < 18:
		n, t := g.tk(fmt.Sprint(1 + r.Intn(3)))
		a, t2 := g.tk("i")
		tgt := g.v()
		lines := []string{"for i in range(" + n + "):", in + tgt + " = " + tgt + " + " + a}
		if r.Chance(1, 3) {
			lines = append(lines, in+"if i > 0:", in+in+"break")
		}
		return Stmt{Kind: "compound", Lines: lines, Ticks: []int{t, t2}}
	case x < 20:
		d, t := g.tk(g.intExpr())
		name := fmt.Sprintf("f%d", r.Intn(3))
		lines := []string{"def " + name + "(a, b=" + d + "):" + g.comment()}
		if r.Chance(1, 2) {
			lines = append(lines, in+"c = a + b", in+"return c")
		} else {
			lines = append(lines, in+"if a:", in+in+"return a + b", in+"return b")
		}
		return Stmt{Kind: "compound", Lines: lines, Ticks: []int{t}}
	case x < 21:
		e, t := g.tk(fmt.Sprintf("f%d(1)", r.Intn(3)))
		return Stmt{Kind: "runtimeerr-maybe", Lines: []string{g.v() + " = " + e}, Ticks: []int{t}}
	case x < 23:
		a, t := g.tk(g.intExpr())
		lines := []string{"class C" + fmt.Sprint(r.Intn(2)) + ":", in + "z = " + a, in + "def m(self):", in + in + "return self.z"}
		return Stmt{Kind: "compound", Lines: lines, Ticks: []int{t}}
	case x < 25:
		a, t := g.tk("1")
		b, t2 := g.tk("2")
		lines := []string{"try:", in + g.v() + " = " + a + " // 0", "except ZeroDivisionError:", in + g.v() + " = " + b}
		ticks := []int{t, t2}
		if r.Chance(1, 2) {
			c, t3 := g.tk("3")
			lines = append(lines, "finally:", in+g.v()+" = "+c)
			ticks = append(ticks, t3)
		}
		return Stmt{Kind: "compound", Lines: lines, Ticks: ticks}
	case x < 26:
		a, t := g.tk(g.v() + " < 3")
		tgt := g.v()
		return Stmt{Kind: "compound", Lines: []string{"while " + a + ":", in + tgt + " = " + tgt + " + 7", in + "break"}, Ticks: []int{t}}
	case x < 28:
		a, t := g.tk(g.intExpr())
		b, t2 := g.tk(g.intExpr())
		lines := []string{g.v() + " = [" + a + ",", "     " + b + "," + g.comment(), "     3]"}
		if r.Chance(1, 3) {
			lines = []string{g.v() + " = (" + a + " +", "", "  " + b + ")"}
		}
		return Stmt{Kind: "bracket", Lines: lines, Ticks: []int{t, t2}}
	case x < 30:
		q := []string{`"""`, `'''`}[r.Intn(2)]
		a, t := g.tk(q + "line1")
		lines := []string{g.v() + " = " + a[:len(a)-0]}
		// tk(N, """line1 ... """) spread over lines, with a blank line inside the string
		lines[0] = g.v() + " = tk(" + fmt.Sprint(t) + ", " + q + "line1"
		if r.Chance(1, 2) {
			lines = append(lines, "")
		}
		if r.Chance(1, 2) {
			// text that looks like a comment / a statement / a prompt but is string data
			lines = append(lines, []string{"# not a comment", "    # indented, still data", "if x:", ">>> 1", "  ", "\\"}[r.Intn(6)])
		}
		lines = append(lines, "  line3"+q+")")
		return Stmt{Kind: "triple", Lines: lines, Ticks: []int{t}}
	case x < 31 && r.Chance(1, 12):
		// one very long physical line (longer than any fixed-size line buffer)
		n := []int{4090, 4096, 5000, 65530, 65536, 70000, 140000}[r.Intn(7)]
		a, t := g.tk("len(\"" + strings.Repeat("s", n) + "\")")
		if r.Chance(1, 2) {
			return Stmt{Kind: "simple", Lines: []string{g.v() + " = " + a}, Ticks: []int{t}}
		}
		return Stmt{Kind: "compound", Lines: []string{"if True:", in + g.v() + " = " + a, in + g.v() + " = 5"}, Ticks: []int{t}}
	case x < 31 && r.Chance(1, 4):
		// the embedder's feed(line) types complete one-line statements into the
		// very same session while a multi-line statement is executing (REPL.Run
		// is re-entered): each runs once, at once, and is echoed like any line
		a, t := g.tk(g.intExpr())
		b, t2 := g.tk(g.v() + " + 1")
		fedLines := "['" + g.v() + " = " + a + "', '" + b + "']"
		if r.Chance(1, 2) {
			return Stmt{Kind: "feedloop", Lines: []string{"for q in " + fedLines + ":", in + "feed(q)"}, Ticks: []int{t, t2}}
		}
		c, t3 := g.tk("1")
		return Stmt{Kind: "feedloop", Lines: []string{"if True:", in + "feed('" + b + "')", in + g.v() + " = " + c}, Ticks: []int{t2, t3}}
	case x < 31 && r.Chance(1, 3):
		// a backslash-newline INSIDE a single-quoted string literal continues the string on the next line
		q := []string{"'", "\""}[r.Intn(2)]
		if r.Chance(1, 2) {
			return Stmt{Kind: "strcont", Lines: []string{g.v() + " = " + q + "ab\\", "cd" + q}}
		}
		a, t := g.tk("len(" + q + "ab\\")
		_ = a
		return Stmt{Kind: "strcont", Lines: []string{g.v() + " = tk(" + fmt.Sprint(t) + ", len(" + q + "ab\\", "cd" + q + "))"}, Ticks: []int{t}}
	case x < 31:
		a, t := g.tk(g.intExpr())
		return Stmt{Kind: "backslash", Lines: []string{g.v() + " = 1 + \\", "    " + a}, Ticks: []int{t}}
	case x < 33:
		a, t := g.tk(g.intExpr())
		b, t2 := g.tk(g.intExpr())
		if r.Chance(1, 2) {
			// a nested scope (comprehension, generator expression, lambda) in a
			// statement after the first ';' of the line
			n := fmt.Sprint(1 + r.Intn(3))
			nb, t3 := g.tk(n)
			second := []string{"[i * 2 for i in range(" + nb + ")]", "sum(z for z in range(" + nb + "))", "(lambda q: q + " + nb + ")(2)", "[j for j in range(3) if j < " + nb + "]", "(lambda: [w for w in range(" + nb + ")])()"}[r.Intn(5)]
			line := g.v() + " = " + a + "; " + g.v() + " = " + second
			ticks := []int{t, t3}
			if r.Chance(1, 3) {
				line += "; " + g.v() + " = " + b
				ticks = append(ticks, t2)
			}
			return Stmt{Kind: "semi", Lines: []string{line}, Ticks: ticks}
		}
		return Stmt{Kind: "semi", Lines: []string{g.v() + " = " + a + "; " + g.v() + " = " + b}, Ticks: []int{t, t2}}
	case x < 34 && r.Chance(1, 2):
		c, t := g.tk(g.v() + " < 50")
		a, t2 := g.tk(g.intExpr())
		return Stmt{Kind: "onelinecompound", Lines: []string{"if " + c + ": " + g.v() + " = " + a}, Ticks: []int{t, t2}}
	case x < 34:
		c := "# just a comment " + fmt.Sprint(r.Intn(100))
		if r.Chance(1, 3) {
			c = []string{"# see C:\\temp\\", "#\\", "   # indented comment \\"}[r.Intn(3)]
		}
		return Stmt{Kind: "comment", Lines: []string{c}}
	case x < 35:
		d, t := g.tk("lambda f: f")
		return Stmt{Kind: "compound", Lines: []string{"@" + d, "def g" + fmt.Sprint(r.Intn(2)) + "():", in + "return 42"}, Ticks: []int{t}}
	case x < 37 && r.Chance(1, 2):
		switch r.Intn(16) {
		case 0: // for/else
			n, t := g.tk(fmt.Sprint(1 + r.Intn(2)))
			a, t2 := g.tk("7")
			return Stmt{Kind: "compound", Lines: []string{"for i in range(" + n + "):", in + "pass", "else:", in + g.v() + " = " + a}, Ticks: []int{t, t2}}
		case 1: // while/else
			c, t := g.tk("False")
			a, t2 := g.tk("8")
			return Stmt{Kind: "compound", Lines: []string{"while " + c + ":", in + "pass", "else:", in + g.v() + " = " + a}, Ticks: []int{t, t2}}
		case 2: // try/except/else/finally
			a, t := g.tk("1")
			b, t2 := g.tk("2")
			c, t3 := g.tk("3")
			return Stmt{Kind: "compound", Lines: []string{"try:", in + g.v() + " = " + a, "except ValueError:", in + "pass", "else:", in + g.v() + " = " + b, "finally:", in + g.v() + " = " + c}, Ticks: []int{t, t2, t3}}
		case 3: // nested def (closure) and a dedent back to the outer body
			d, t := g.tk("2")
			return Stmt{Kind: "compound", Lines: []string{"def f" + fmt.Sprint(r.Intn(3)) + "(a, b=" + d + "):", in + "def inner(c):", in + in + "return a + b + c", in + "return inner(1)"}, Ticks: []int{t}}
		case 4: // bare expression spanning lines inside brackets: echoed once
			a, t := g.tk(g.intExpr())
			return Stmt{Kind: "expr-multi", Lines: []string{"[" + a + ",", "  2,", "]"}, Ticks: []int{t}}
		case 5: // ';' list ending in an expression: the expression is echoed
			a, t := g.tk(g.intExpr())
			e, t2 := g.tk(g.intExpr())
			return Stmt{Kind: "semi-expr", Lines: []string{g.v() + " = " + a + "; " + e}, Ticks: []int{t, t2}}
		case 6: // if / elif / else over several lines
			c, t := g.tk(g.v() + " > 100")
			d, t2 := g.tk(g.v() + " < 100")
			a, t3 := g.tk("5")
			return Stmt{Kind: "compound", Lines: []string{"if " + c + ":", in + "pass", "elif " + d + ":", in + g.v() + " = " + a, "else:", in + "pass"}, Ticks: []int{t, t2, t3}}
		case 7: // with statement
			a, t := g.tk("4")
			return Stmt{Kind: "compound", Lines: []string{"with CM() as w:", in + g.v() + " = w + " + a}, Ticks: []int{t}}
		case 8: // a call spanning lines, with a comment line and a blank line inside the brackets
			a, t := g.tk(g.intExpr())
			return Stmt{Kind: "bracket", Lines: []string{g.v() + " = max(" + a + ",", "  # a comment inside the call", "", "  3)"}, Ticks: []int{t}}
		case 9: // dict display over several lines
			a, t := g.tk(g.intExpr())
			return Stmt{Kind: "bracket", Lines: []string{"dd = {'a': " + a + ",  # first", "      'b': 2,", "}"}, Ticks: []int{t}}
		case 10: // expression statements inside a top-level loop are echoed (each iteration)
			n, t := g.tk(fmt.Sprint(1 + r.Intn(3)))
			e, t2 := g.tk("i + 10")
			return Stmt{Kind: "compound", Lines: []string{"for i in range(" + n + "):", in + e}, RefLines: []string{"for i in range(" + n + "):", in + "echo(" + e + ")"}, Ticks: []int{t, t2}}
		case 11: // ... and inside a top-level if / try
			e, t := g.tk(g.intExpr())
			f, t2 := g.tk("None")
			return Stmt{Kind: "compound", Lines: []string{"if True:", in + e, in + f}, RefLines: []string{"if True:", in + "echo(" + e + ")", in + "echo(" + f + ")"}, Ticks: []int{t, t2}}
		case 14: // calling a function whose body holds an expression statement echoes only the call's value
			return Stmt{Kind: "expr", Lines: []string{"fq()"}}
		case 12: // but not inside a class body
			e, t := g.tk("20")
			return Stmt{Kind: "compound", Lines: []string{"class K" + fmt.Sprint(r.Intn(2)) + ":", in + e, in + "zz = 1"}, Ticks: []int{t}}
		case 13: // nor inside a function body when it is called
			e, _ := g.tk("30")
			return Stmt{Kind: "compound", Lines: []string{"def fq():", in + e, in + "return 1"}}
		default: // a whitespace-only line inside a block does not end it
			a, t := g.tk(g.intExpr())
			b, t2 := g.tk(g.intExpr())
			return Stmt{Kind: "compound", Lines: []string{"if True:", in + g.v() + " = " + a, in, in + g.v() + " = " + b}, Ticks: []int{t, t2}}
		}
	case x < 37:
		bad := []string{"x = = 1", "1 +* 2", "def (:", "v0 = )", "if", "for in x:", "v1 = 5 5", "class :", "return", "a b", "v0 = ) \\", "1 +* 2 \\",
			// unexpected indent at the primary prompt: an error, nothing runs
			"   v0 = 777", "\tv1 = 778", " v2 = 779  # c", "        v3 = 780",
			// erroneous lines whose TEXT holds the wording of the errors that mean "incomplete"
			"s = \"unexpected EOF while parsing\" +* 2", "t = 'EOF while scanning triple-quoted string literal' = = 1", "1 +* 2  # unexpected EOF while parsing"}
		return Stmt{Kind: "syntaxerr", Lines: []string{bad[r.Intn(len(bad))]}}
	case x < 38:
		a, t := g.tk("1")
		_ = t
		g.tick-- // never executed
		return Stmt{Kind: "blocksyntaxerr", Lines: []string{"if " + g.v() + " < 100:", in + g.v() + " = " + a, in + "x = = 3"}}
	case x < 39:
		a, t := g.tk("1")
		forms := []string{a + " // 0", "undefined_name_zz", g.v() + " = " + a + " // 0", "[1][5 + " + a + "]",
			// a SyntaxError raised at RUN time for truncated source: the statement itself is complete
			"eval(\"(\" + str(" + a + ") + \", 2\")", g.v() + " = [" + a + ", exec(\"if x:\")]", "compile('\"\"\"abc' + str(" + a + "), 'f', 'exec')", "eval(\"[\" * " + a + ")"}
		f := r.Intn(len(forms))
		ticks := []int{t}
		if f == 1 {
			g.tick--
			ticks = nil
		}
		return Stmt{Kind: "runtimeerr", Lines: []string{forms[f]}, Ticks: ticks}
	default:
		// error before the side effect: the tick must not happen
		a, _ := g.tk("1")
		g.tick--
		return Stmt{Kind: "runtimeerr", Lines: []string{g.v() + " = 1 // 0 + " + a}}
	}
}

// decorate inserts comment-only lines inside multi-line statements (inside
// blocks with any indentation, inside open brackets), which must not change
// what the statement does nor when it runs.
func decorate(r *simrt.Rand, st Stmt) Stmt {
	if len(st.Lines) < 2 || (st.Kind != "compound" && st.Kind != "bracket") || !r.Chance(1, 3) {
		return st
	}
	at := 1 + r.Intn(len(st.Lines)-1)
	c := []string{"# a comment", "    # indented comment", "\t# tab comment", "        # deep comment"}[r.Intn(4)]
	lines := append([]string(nil), st.Lines[:at]...)
	lines = append(lines, c)
	lines = append(lines, st.Lines[at:]...)
	st.Lines = lines
	return st
}

func (Engine) Gen(seed uint64, idx int, tier string) interface{} {
	r := simrt.NewRand(simrt.Mix(seed, 0x20, uint64(idx)))
	g := &sgen{r: r, ind: []string{"    ", "  ", "\t", "        "}[r.Intn(4)]}
	sc := &Scenario{Order: simrt.MapOrder{Kind: r.Intn(4), K: r.Uint64()}}
	sc.Stmts = append(sc.Stmts, Stmt{Kind: "simple", Lines: []string{"from simlog import tk, echo, feed"}})
	for i := 0; i < 4; i++ {
		sc.Stmts = append(sc.Stmts, Stmt{Kind: "simple", Lines: []string{fmt.Sprintf("v%d = %d", i, i)}})
	}
	for i := 0; i < 3; i++ {
		sc.Stmts = append(sc.Stmts, Stmt{Kind: "compound", Lines: []string{fmt.Sprintf("def f%d(a, b=1):", i), g.ind + "return a + b"}})
	}
	sc.Stmts = append(sc.Stmts, Stmt{Kind: "compound", Lines: []string{"class CM:", g.ind + "def __enter__(self):", g.ind + g.ind + "return 3", g.ind + "def __exit__(self, *a):", g.ind + g.ind + "return False"}})
	n := 3 + r.Intn(12)
	if (tier == "thorough" && r.Chance(1, 3)) || r.Chance(1, 15) {
		n = 15 + r.Intn(45) // long sessions
	}
	for i := 0; i < n; i++ {
		st := decorate(r, g.stmt())
		if r.Chance(1, 5) {
			st.Blank = 1 + r.Intn(2)
			// a line holding only whitespace is a blank line too
			st.BlankWS = []string{"", "", "   ", "\t", " "}[r.Intn(5)]
		}
		sc.Stmts = append(sc.Stmts, st)
	}
	if r.Chance(1, 6) {
		sc.SwapAt = 9 + r.Intn(n) // (the preamble is 9 statements)
	}
	return sc
}

func (Engine) Decode(raw json.RawMessage) (interface{}, error) {
	var sc Scenario
	if err := json.Unmarshal(raw, &sc); err != nil {
		return nil, err
	}
	return &sc, nil
}

func (Engine) Prepare(batch []interface{}) error { return nil }

func (Engine) Reseed(sci interface{}, k uint64) interface{} {
	sc := *(sci.(*Scenario))
	sc.Order = simrt.MapOrder{Kind: int(k % 4), K: k}
	return &sc
}

func (Engine) Shrink(sci interface{}) []interface{} {
	sc := sci.(*Scenario)
	var out []interface{}
	for i := range sc.Stmts {
		if i == 0 {
			continue
		}
		c := &Scenario{Order: sc.Order, SwapAt: sc.SwapAt}
		c.Stmts = append(append([]Stmt(nil), sc.Stmts[:i]...), sc.Stmts[i+1:]...)
		if sc.SwapAt > i {
			c.SwapAt--
		}
		out = append(out, c)
	}
	if sc.SwapAt > 0 {
		out = append(out, &Scenario{Order: sc.Order, Stmts: append([]Stmt(nil), sc.Stmts...)})
	}
	for i, st := range sc.Stmts {
		if st.Blank > 0 {
			c := &Scenario{Order: sc.Order, SwapAt: sc.SwapAt, Stmts: append([]Stmt(nil), sc.Stmts...)}
			c.Stmts[i].Blank = 0
			out = append(out, c)
		}
	}
	return out
}

func (Engine) Describe() harness.EngineInfo {
	return harness.EngineInfo{
		Rule:        "session = preamble + 3-14 seeded statements (assignments, bare expressions incl. None-valued, if/else, for, while, def with default, class with method, try/except/finally, decorated def, multi-line brackets incl. a blank line inside, triple-quoted strings with a blank line inside, backslash continuation, single-quoted strings continued with backslash-newline, an embedder callable feed(line) that types complete lines into the same REPL while a multi-line statement executes, ';'-joined statements, comments, trailing comments) with indent width 2/4/8/tab, extra blank lines between statements, and injected faults: single-line syntax errors (incl. lines whose own text holds the wording of the errors that mean 'incomplete'), a syntax error inside a block, runtime errors after and before a side effect; every statement carries tk(i, value) side-effect markers. Lines are fed one per event, a blank line after every multi-line statement. distinct = distinct sessions (all physical lines); non-trivial = at least one multi-line statement",
		Real:        []string{"repl.REPL.Run (continuation state machine)", "repl/cli.RunREPL with the line-editing library's non-terminal reader (second pass: the same lines through file descriptors 0/1)", "parser lexer interactive mode", "compile single mode", "vm PRINT_EXPR", "py.TracebackDump"},
		Stubbed:     []string{"the terminal: repl.UI implemented by a recorder (SetPrompt / Print); for the front-end pass stdin = a pipe holding the lines, stdout = a scratch file, the history file = absent on a read-only simulated file system", "os.Stderr (tracebacks) -> discarded", "reference session: the same statements compiled one by one in exec mode (bare expressions in eval mode) in a fresh context of the same build"},
		Assumptions: []string{"a blank line is also fed after a compound statement written on several lines only; single-line statements execute at their own line", "between the last line of a multi-line statement and its terminating blank line either prompt is accepted", "traceback text on stderr is not inspected; a runtime error must only leave the session usable and its state equal to the reference's"},
		TimeUnit:    "REPL Run calls (terminal events) and VM instructions",
	}
}

// ---------------------------------------------------------------- UI recorder

type uiRec struct {
	prompt string
	prints []uiPrint
	run    int
	gen    int // the UI registered last
	stale  []string
}

// uiFront is one registered UI; all of them record into the same uiRec, which
// notes what arrives through a UI that has been replaced.
type uiFront struct {
	rec *uiRec
	gen int
}

func (f *uiFront) SetPrompt(p string) { f.rec.prompt = p }
func (f *uiFront) Print(s string) {
	if f.gen != f.rec.gen {
		f.rec.stale = append(f.rec.stale, s)
	}
	f.rec.Print(s)
}

type uiPrint struct {
	run  int
	text string
}

func (u *uiRec) SetPrompt(p string) { u.prompt = p }
func (u *uiRec) Print(s string)     { u.prints = append(u.prints, uiPrint{u.run, s}) }

type tickRec struct {
	run int
	id  int
}

type refStmt struct {
	echoes  []string // echoes of expression statements nested in the statement's top-level blocks
	ticks   []int
	isExpr  bool
	value   string // repr of the value (bare expression)
	none    bool
	errKind string // "" | syntax | runtime
}

func devnullStderr() func() {
	old := os.Stderr
	f, err := os.OpenFile(os.DevNull, os.O_WRONLY, 0)
	if err != nil {
		return func() {}
	}
	os.Stderr = f
	return func() { os.Stderr = old; f.Close() }
}

func stmtText(st Stmt) string { return strings.Join(st.Lines, "\n") }

func isExprKind(k string) bool { return k == "expr" || k == "exprnone" || k == "expr-multi" }

func (Engine) Exec(sci interface{}, opt harness.ExecOpts) *harness.Outcome {
	sc := sci.(*Scenario)
	out := &harness.Outcome{}
	restore := devnullStderr()
	defer restore()

	var refs []refStmt
	var refGlobals, replGlobals map[string]string
	var refUnderscore, replUnderscore string
	ui := &uiRec{}
	var ticks []tickRec
	type window struct{ first, last, term int }
	var wins []window
	var promptErrs []string
	var panicMsg string
	var fed, promptsBefore []string
	var cliOut, cliErr string
	var cliTicks []int
	cliRan := false

	sim := simrt.New(simrt.Config{MaxSteps: 30000000, Order: sc.Order, KeepLog: opt.KeepLog})
	sim.Spawn("terminal", func() {
		defer func() {
			if r := recover(); r != nil {
				panicMsg = fmt.Sprint(r)
			}
		}()
		// ---------------- reference session: statements one by one
		rs, err := pyhost.NewSession(nil)
		if err != nil {
			panicMsg = "setup: " + err.Error()
			return
		}
		var cur *refStmt
		lastVal := ""
		rs.Hook = func(kind string, args py.Tuple) {
			if kind == "tick" && cur != nil && len(args) > 0 {
				if id, ok := args[0].(py.Int); ok {
					cur.ticks = append(cur.ticks, int(id))
				}
			}
			if kind == "feed" && cur != nil && len(args) == 1 {
				// the fed line is a statement of its own: evaluate-and-echo if it is an expression, execute otherwise
				line, _ := args[0].(py.String)
				if code, err := py.Compile(strings.TrimSpace(string(line)), "<ref-fed>", py.EvalMode, 0, true); err == nil {
					if v, err := rs.Ctx.RunCode(code, rs.Main.Globals, rs.Main.Globals, nil); err == nil && v != py.None {
						if rp, err := py.Repr(v); err == nil {
							cur.echoes = append(cur.echoes, string(rp.(py.String)))
							lastVal = string(rp.(py.String))
						}
					}
				} else if code, err := py.Compile(string(line)+"\n", "<ref-fed>", py.ExecMode, 0, true); err == nil {
					rs.Ctx.RunCode(code, rs.Main.Globals, rs.Main.Globals, nil)
				}
			}
			if kind == "echo" && cur != nil && len(args) == 1 && args[0] != py.None {
				if rp, err := py.Repr(args[0]); err == nil {
					cur.echoes = append(cur.echoes, string(rp.(py.String)))
					lastVal = string(rp.(py.String))
				}
			}
		}
		for _, st := range sc.Stmts {
			var r refStmt
			cur = &r
			text := stmtText(st)
			if st.RefLines != nil {
				text = strings.Join(st.RefLines, "\n")
			}
			if isExprKind(st.Kind) {
				r.isExpr = true
				code, err := py.Compile(strings.TrimSpace(stripComment(text)), "<ref>", py.EvalMode, 0, true)
				if err != nil {
					r.errKind = "syntax"
				} else {
					v, err := rs.Ctx.RunCode(code, rs.Main.Globals, rs.Main.Globals, nil)
					if err != nil {
						r.errKind = "runtime"
					} else if v == py.None {
						r.none = true
					} else {
						rp, err := py.Repr(v)
						if err != nil {
							r.errKind = "runtime"
						} else {
							r.value = string(rp.(py.String))
							lastVal = r.value
						}
					}
				}
			} else if st.Kind == "semi-expr" {
				parts := strings.SplitN(text, "; ", 2)
				r.isExpr = true
				code, err := py.Compile(parts[0]+"\n", "<ref>", py.ExecMode, 0, true)
				if err != nil {
					r.errKind = "syntax"
				} else if _, err := rs.Ctx.RunCode(code, rs.Main.Globals, rs.Main.Globals, nil); err != nil {
					r.errKind = "runtime"
				} else if code2, err := py.Compile(parts[1], "<ref>", py.EvalMode, 0, true); err != nil {
					r.errKind = "syntax"
				} else if v, err := rs.Ctx.RunCode(code2, rs.Main.Globals, rs.Main.Globals, nil); err != nil {
					r.errKind = "runtime"
				} else if v == py.None {
					r.none = true
				} else if rp, err := py.Repr(v); err == nil {
					r.value = string(rp.(py.String))
					lastVal = r.value
				}
			} else {
				code, err := py.Compile(text+"\n", "<ref>", py.ExecMode, 0, true)
				if err != nil {
					r.errKind = "syntax"
				} else if _, err := rs.Ctx.RunCode(code, rs.Main.Globals, rs.Main.Globals, nil); err != nil {
					r.errKind = "runtime"
				}
			}
			refs = append(refs, r)
		}
		cur = nil
		refGlobals = snapshot(rs.Main.Globals)
		refUnderscore = lastVal
		rs.Close()

		// ---------------- the REPL, one physical line per event
		ctx := py.NewContext(py.ContextOpts{SysArgs: []string{"sim"}})
		rp := gprepl.New(ctx)
		sess := pyhost.Attach(ctx, rp.Module)
		defer sess.Close()
		sess.Hook = func(kind string, args py.Tuple) {
			if kind == "tick" && len(args) > 0 {
				if id, ok := args[0].(py.Int); ok {
					ticks = append(ticks, tickRec{ui.run, int(id)})
					simrt.Log("tick", fmt.Sprint(int(id)))
				}
			}
			if kind == "feed" && len(args) == 1 {
				if line, ok := args[0].(py.String); ok {
					simrt.Log("fed-from-inside", string(line))
					rp.Run(string(line))
				}
			}
		}
		rp.SetUI(&uiFront{ui, 0})
		feed := func(line string) {
			ui.run++
			simrt.Log("line", line)
			fed = append(fed, line)
			promptsBefore = append(promptsBefore, ui.prompt)
			rp.Run(line)
			simrt.Log("prompt", ui.prompt)
		}
		for si, st := range sc.Stmts {
			if sc.SwapAt > 0 && si == sc.SwapAt {
				ui.gen++
				rp.SetUI(&uiFront{ui, ui.gen})
				if ui.prompt != gprepl.NormalPrompt {
					promptErrs = append(promptErrs, fmt.Sprintf("statement %d: registering a UI between statements left the prompt %q", si, ui.prompt))
				}
			}
			w := window{}
			for li, line := range st.Lines {
				feed(line)
				if li == 0 {
					w.first = ui.run
				}
				w.last = ui.run
				if li < len(st.Lines)-1 {
					// more input is needed to complete the statement
					if ui.prompt != gprepl.ContinuationPrompt {
						promptErrs = append(promptErrs, fmt.Sprintf("statement %d (%s): after line %d of %d the prompt is %q, expected the continuation prompt", si, st.Kind, li+1, len(st.Lines), ui.prompt))
					}
				}
			}
			w.term = w.last
			if len(st.Lines) > 1 || st.Kind == "onelinecompound" {
				// a compound statement on one physical line may run at once or
				// wait for the blank line: both are within the property
				feed("")
				w.term = ui.run
			}
			if ui.prompt != gprepl.NormalPrompt {
				promptErrs = append(promptErrs, fmt.Sprintf("statement %d (%s): everything entered has been executed but the prompt is %q", si, st.Kind, ui.prompt))
			}
			for b := 0; b < st.Blank; b++ {
				feed(st.BlankWS)
				if ui.prompt != gprepl.NormalPrompt {
					promptErrs = append(promptErrs, fmt.Sprintf("statement %d: extra blank line changed the prompt to %q", si, ui.prompt))
				}
			}
			wins = append(wins, w)
		}
		replGlobals = snapshot(rp.Module.Globals)
		if u, ok := rp.Module.Globals["_"]; ok && u != py.None {
			if r, err := py.Repr(u); err == nil {
				replUnderscore = string(r.(py.String))
			}
		}
		// ---------------- the same lines through the command-line front end
		if lineSafeForCLI(fed) {
			cliRan = true
			cliOut, cliTicks, cliErr = runCLI(fed)
		}
	})
	res := sim.Run()
	out.Steps = res.Steps
	out.LogHash = res.LogHash
	out.Capped = res.Capped
	if opt.KeepLog {
		for _, e := range res.Events {
			out.Trace = append(out.Trace, e.String())
		}
	}
	for _, p := range res.Panics {
		out.Violate("panic", "panic|"+firstLine(p.Value), "%s\n%s", p.Value, p.Stack)
	}
	if panicMsg != "" {
		out.Violate("panic", "panic|"+firstLine(panicMsg), "%s", panicMsg)
	}
	if res.Capped {
		out.Violate("hang", "hang", "session did not finish within the step budget")
	}
	if len(out.Violations) > 0 || len(wins) != len(sc.Stmts) {
		return out
	}

	// ------------------------------------------------------------ oracle
	for _, e := range promptErrs {
		kind := "prompt-normal-while-incomplete"
		if strings.Contains(e, "has been executed") || strings.Contains(e, "extra blank") {
			kind = "prompt-continuation-after-execution"
		}
		out.Violate(kind, kind, "%s", e)
		break
	}
	if len(ui.stale) > 0 {
		out.Violate("echo-to-replaced-ui", "stale-ui", "after the embedder registered a new UI (before statement %d) the old one still received %q", sc.SwapAt, ui.stale)
	}
	if sc.SwapAt > 0 {
		out.Probe("ui_registered_again_mid_session")
	}
	// ticks: exactly once, in order, inside the statement's window
	var want []tickRec // run field unused
	owner := map[int]int{}
	for si, r := range refs {
		for _, t := range r.ticks {
			want = append(want, tickRec{id: t})
			owner[t] = si
		}
	}
	gotIDs := make([]string, len(ticks))
	for i, t := range ticks {
		gotIDs[i] = fmt.Sprint(t.id)
	}
	wantIDs := make([]string, len(want))
	for i, t := range want {
		wantIDs[i] = fmt.Sprint(t.id)
	}
	if strings.Join(gotIDs, ",") != strings.Join(wantIDs, ",") {
		si, kind := firstTickDiff(ticks, want, owner, sc)
		out.Violate("statement-not-executed-exactly-once", "ticks|"+kind, "side effects in the REPL [%s] differ from executing the statements one by one [%s] (first difference at statement %d, %s)", strings.Join(gotIDs, ","), strings.Join(wantIDs, ","), si, kind)
	} else {
		for _, t := range ticks {
			si := owner[t.id]
			w := wins[si]
			if t.run < w.last {
				out.Violate("statement-executed-before-complete", "early|"+sc.Stmts[si].Kind, "tick %d of statement %d (%s) happened at terminal event %d, before its last line (event %d) was entered", t.id, si, sc.Stmts[si].Kind, t.run, w.last)
				break
			}
			if t.run > w.term {
				out.Violate("statement-executed-late", "late|"+sc.Stmts[si].Kind, "tick %d of statement %d (%s) happened at terminal event %d, after its terminating event %d", t.id, si, sc.Stmts[si].Kind, t.run, w.term)
				break
			}
		}
	}
	// echo and error reports, statement by statement
	pi := 0
	for si, st := range sc.Stmts {
		w := wins[si]
		var mine []string
		for pi < len(ui.prints) && ui.prints[pi].run <= w.term+st.Blank {
			if ui.prints[pi].run >= w.first {
				mine = append(mine, ui.prints[pi].text)
			}
			pi++
		}
		r := refs[si]
		switch {
		case r.errKind == "syntax":
			if len(mine) != 1 || !strings.HasPrefix(mine[0], "Compile error") {
				out.Violate("syntax-error-not-reported", "report|syntax|"+st.Kind, "statement %d (%s) has a syntax error; the REPL printed %q instead of one compile error report", si, st.Kind, mine)
			}
		case r.isExpr && r.errKind == "" && !r.none:
			if len(mine) != 1 || mine[0] != r.value {
				out.Violate("echo-differs", "echo|value", "statement %d: bare expression %q has value %s; the REPL printed %q", si, stmtText(st), r.value, mine)
			}
		case r.errKind == "" && len(r.echoes) > 0:
			if strings.Join(mine, "\x00") != strings.Join(r.echoes, "\x00") {
				out.Violate("echo-differs", "echo|nested", "statement %d (%s): the expression statements in its top-level blocks have the values %q; the REPL printed %q", si, st.Kind, r.echoes, mine)
			}
		default:
			if len(mine) != 0 {
				out.Violate("unexpected-echo", "echo|unexpected|"+st.Kind, "statement %d (%s, %q) must not echo anything; the REPL printed %q", si, st.Kind, stmtText(st), mine)
			}
		}
		if len(out.Violations) > 0 {
			break
		}
	}
	if len(out.Violations) == 0 {
		if replUnderscore != refUnderscore {
			out.Violate("underscore-differs", "underscore", "after the session _ is %q in the REPL, but the last non-None expression value is %q", replUnderscore, refUnderscore)
		}
		keys := map[string]bool{}
		for k := range refGlobals {
			keys[k] = true
		}
		for k := range replGlobals {
			keys[k] = true
		}
		var ks []string
		for k := range keys {
			ks = append(ks, k)
		}
		sort.Strings(ks)
		for _, k := range ks {
			if k == "_" || strings.HasPrefix(k, "__") {
				continue
			}
			if refGlobals[k] != replGlobals[k] {
				out.Violate("session-state-differs", "globals", "global %s is %s in the REPL session and %s after executing the statements one by one", k, orUnset(replGlobals[k]), orUnset(refGlobals[k]))
				break
			}
		}
	}

	// the command-line front end (repl/cli.RunREPL over a non-terminal stdin)
	// must hand every physical line, unchanged and once, to the same REPL: its
	// transcript is the prompts and prints of the direct session
	if cliRan && len(out.Violations) == 0 {
		out.Probe("cli_front_end_session")
		var want strings.Builder
		pj := 0
		for i := range fed {
			want.WriteString(promptsBefore[i])
			for pj < len(ui.prints) && ui.prints[pj].run <= i+1 {
				want.WriteString(ui.prints[pj].text + "\n")
				pj++
			}
		}
		want.WriteString(ui.prompt + "\n")
		var wantTicks, gotTicks []string
		for _, t := range ticks {
			wantTicks = append(wantTicks, fmt.Sprint(t.id))
		}
		for _, t := range cliTicks {
			gotTicks = append(gotTicks, fmt.Sprint(t))
		}
		switch {
		case cliErr != "":
			out.Infra = "cli front end set-up: " + cliErr
		case strings.Join(gotTicks, ",") != strings.Join(wantTicks, ","):
			out.Violate("front-end-session-differs", "cli|ticks", "the same lines piped through the command-line front end executed side effects [%s], the REPL fed directly [%s]", strings.Join(gotTicks, ","), strings.Join(wantTicks, ","))
		case cliOut != want.String():
			out.Violate("front-end-session-differs", "cli|transcript", "the same lines piped through the command-line front end produced the transcript %q, the REPL fed directly implies %q", cliOut, want.String())
		}
	}

	// coverage
	multi := false
	for si, st := range sc.Stmts {
		out.Probe("stmt:" + st.Kind)
		if len(st.Lines) > 1 {
			multi = true
		}
		switch refs[si].errKind {
		case "syntax":
			out.Fault("syntax_error_statement", 1)
		case "runtime":
			out.Fault("runtime_error_statement", 1)
		}
	}
	if multi {
		var sb strings.Builder
		rest := sc.Stmts
		if len(rest) > 8 {
			rest = rest[8:]
		}
		for _, st := range rest {
			sb.WriteString(stmtText(st))
			sb.WriteString("\n--\n")
		}
		out.Shape = sb.String()
	}
	return out
}

// lineSafeForCLI: the non-terminal reader of the line-editing library splits
// physical lines at 4096 bytes and at \r; such lines are not generated, but a
// shrunk or hand-written scenario is checked.
func lineSafeForCLI(lines []string) bool {
	for _, l := range lines {
		if len(l) > 2000 || strings.ContainsAny(l, "\r\n") {
			return false
		}
	}
	return true
}

var cliOutFile *os.File

// runCLI runs cli.RunREPL on a fresh context with file descriptors 0 and 1
// replaced by a pipe holding the lines and a scratch file, and returns what
// the front end wrote.  The history file is unavailable (empty simulated
// file system, writes refused).
func runCLI(lines []string) (transcript string, ticks []int, errMsg string) {
	if cliOutFile == nil {
		f, err := os.CreateTemp("", "verif-cli-out-")
		if err != nil {
			return "", nil, err.Error()
		}
		os.Remove(f.Name())
		cliOutFile = f
	}
	if err := cliOutFile.Truncate(0); err != nil {
		return "", nil, err.Error()
	}
	cliOutFile.Seek(0, 0)
	pr, pw, err := os.Pipe()
	if err != nil {
		return "", nil, err.Error()
	}
	defer pr.Close()
	input := strings.Join(lines, "\n") + "\n"
	if len(input) > 60000 {
		pw.Close()
		return "", nil, "session too large for the pipe"
	}
	pw.WriteString(input)
	pw.Close()

	ctx := py.NewContext(py.ContextOpts{SysArgs: []string{"sim"}})
	rp := gprepl.New(ctx)
	sess := pyhost.Attach(ctx, rp.Module)
	defer sess.Close()
	sess.Hook = func(kind string, args py.Tuple) {
		if kind == "tick" && len(args) > 0 {
			if id, ok := args[0].(py.Int); ok {
				ticks = append(ticks, int(id))
			}
		}
		if kind == "feed" && len(args) == 1 {
			if line, ok := args[0].(py.String); ok {
				rp.Run(string(line))
			}
		}
	}
	save0, err0 := syscall.Dup(0)
	save1, err1 := syscall.Dup(1)
	if err0 != nil || err1 != nil {
		return "", nil, "dup failed"
	}
	simfs.Install(simfs.New())
	restore := func() {
		syscall.Dup2(save0, 0)
		syscall.Dup2(save1, 1)
		syscall.Close(save0)
		syscall.Close(save1)
		simfs.Install(nil)
	}
	syscall.Dup2(int(pr.Fd()), 0)
	syscall.Dup2(int(cliOutFile.Fd()), 1)
	func() {
		defer restore()
		defer func() {
			if r := recover(); r != nil {
				errMsg = ""
				transcript = "PANIC: " + fmt.Sprint(r)
			}
		}()
		cli.RunREPL(rp)
	}()
	if strings.HasPrefix(transcript, "PANIC") {
		return transcript, ticks, ""
	}
	cliOutFile.Seek(0, 0)
	b := make([]byte, 1<<20)
	n, _ := cliOutFile.Read(b)
	return string(b[:n]), ticks, ""
}

func orUnset(s string) string {
	if s == "" {
		return "<unset>"
	}
	return s
}

func firstTickDiff(got, want []tickRec, owner map[int]int, sc *Scenario) (int, string) {
	n := len(got)
	if len(want) < n {
		n = len(want)
	}
	for i := 0; i < n; i++ {
		if got[i].id != want[i].id {
			si := owner[want[i].id]
			return si, sc.Stmts[si].Kind
		}
	}
	if len(want) > n {
		si := owner[want[n].id]
		return si, sc.Stmts[si].Kind
	}
	if len(got) > n {
		if si, ok := owner[got[n].id]; ok {
			return si, sc.Stmts[si].Kind + "|extra"
		}
	}
	return -1, "extra"
}

func stripComment(s string) string {
	if i := strings.Index(s, "  # c"); i >= 0 {
		return s[:i]
	}
	return s
}

func snapshot(g py.StringDict) map[string]string {
	out := map[string]string{}
	for k, v := range g {
		switch v.(type) {
		case py.Int, py.String, py.Bool, py.NoneType, *py.List, py.Tuple, py.Float:
			out[k] = pyhost.Canon(v)
		default:
			out[k] = "<" + v.Type().Name + ">"
		}
	}
	return out
}

func firstLine(s string) string {
	if i := strings.IndexByte(s, '\n'); i >= 0 {
		s = s[:i]
	}
	if len(s) > 100 {
		s = s[:100]
	}
	return s
}

func (Engine) Text(sci interface{}) string {
	var b strings.Builder
	for _, st := range sci.(*Scenario).Stmts {
		for _, l := range st.Lines {
			b.WriteString(">>> " + l + "\n")
		}
		if len(st.Lines) > 1 {
			b.WriteString(">>> \n")
		}
	}
	return b.String()
}
