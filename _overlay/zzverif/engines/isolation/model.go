package isolation

import (
	"fmt"
	"strconv"
	"strings"
)

// The reference model of ONE context: what each read statement must log,
// given only that context's own earlier statements.  It is the executable
// form of "a program observes exactly what it observes when run alone"; unlike
// the solo-run oracle it cannot be polluted by state that an earlier context
// of the same process left behind (a process-wide cache fills during the solo
// runs already).
type ctxModel struct {
	lib      string // this context's sys.path directory
	idx      int    // the context's index (the embedder's per-context configuration module says 100+idx)
	marker   string // initial shm.val of the module found there
	tag      string // CT: the last character of the context's first sys.path entry
	vals     map[string]string
	path     []string
	argv     []string
	shmList  []string
	shmDict  map[string]bool
	defaults []string
	regList  []string // items appended to regsrc.lst
	shmOK    bool // shm already imported
	hlpOK    bool // hlp (and through it cfg) already imported
}

func newCtxModel(lib, marker string, idx int) *ctxModel {
	tag := ""
	if lib != "" {
		tag = lib[len(lib)-1:]
	}
	return &ctxModel{idx: idx, lib: lib, marker: marker, tag: tag, vals: map[string]string{}, path: []string{lib, "/simcwd/common"}, argv: []string{"sim"}, shmDict: map[string]bool{}}
}

func q(s string) string { return strconv.Quote(s) }

func qlist(l []string) string {
	parts := make([]string, len(l))
	for i, x := range l {
		parts[i] = q(x)
	}
	return "[" + strings.Join(parts, ",") + "]"
}

// importShm: does `import shm` succeed now?
func (m *ctxModel) importShm() bool {
	if m.shmOK {
		return true
	}
	for _, p := range m.path {
		if p == m.lib {
			m.shmOK = true
			return true
		}
	}
	return false
}

// importHlp: does `import hlp` (which imports cfg) succeed now?
func (m *ctxModel) importHlp() bool {
	if m.hlpOK {
		return true
	}
	common, lib := false, false
	for _, p := range m.path {
		if p == "/simcwd/common" {
			common = true
		}
		if p == m.lib {
			lib = true
		}
	}
	// hlp.py is found through the common directory; its `import cfg` through
	// the context's own directory (or, in relative mode, relative to the
	// importing FILE hlp.py, i.e. the common directory, where there is none)
	if common && lib && m.lib != "." {
		m.hlpOK = true
		return true
	}
	return false
}

func (m *ctxModel) write(loc string, v int) {
	val := fmt.Sprintf("w%d%s", v, m.tag)
	switch loc {
	case "exc.eof":
		m.vals[loc] = q(fmt.Sprintf("e%d%s.py", v, m.tag))
	case "exc.syntax":
		m.vals[loc] = fmt.Sprintf("(\"f%d%s.py\",%d)", v, m.tag, badLines[v%len(badLines)])
	case "const.bytes":
		bt := "x"
		if m.tag >= "0" && m.tag <= "3" {
			bt = m.tag
		}
		m.vals[loc] = fmt.Sprintf("b'k%d%s'", v, bt)
	case "sys.path.append":
		m.path = append(m.path, val)
	case "sys.path.rebind":
		m.path = []string{val}
	case "sys.argv.inplace":
		m.argv = append(m.argv, val)
	case "sys.argv.rebind":
		m.argv = []string{val}
	case "srcmod.val":
		if m.importShm() {
			m.vals[loc] = val
		}
	case "srcmod.list":
		if m.importShm() {
			m.shmList = append(m.shmList, val)
		}
	case "srcmod.dict":
		if m.importShm() {
			m.shmDict[val] = true
		}
	case "nested.cfg":
		if m.importHlp() {
			m.vals[loc] = val
		}
	case "func.default":
		m.defaults = append(m.defaults, val)
	case "print.capture", "print.fault":
		m.vals["print.capture"] = val + "\n" // a fresh capture object holding exactly this print
	case "regsrc.val":
		m.vals[loc] = val
		m.regList = append(m.regList, val)
	case "type.subclasses":
		// no effect on what is visible from other contexts' classes
	case "type.int", "type.list", "type.exc":
		// attributes of built-in types cannot be set: no effect
	default:
		m.vals[loc] = val
	}
}

// read returns the expected canonical rendering of everything logged after
// the statement index and the location name.
func (m *ctxModel) read(loc string) string {
	attr := func() string {
		if v, ok := m.vals[loc]; ok {
			return q(v)
		}
		return "\"exc\" \"AttributeError\""
	}
	switch loc {
	case "global", "class.attr":
		if v, ok := m.vals[loc]; ok {
			return q(v)
		}
		return q("init")
	case "math.attr":
		if v, ok := m.vals[loc]; ok {
			return q(v)
		}
		return "True"
	case "math.new", "sys.new", "builtins.new", "time.attr":
		return attr()
	case "type.int", "type.list", "type.exc":
		return "\"exc\" \"AttributeError\""
	case "sys.path.append", "sys.path.rebind":
		return qlist(m.path)
	case "sys.argv.inplace", "sys.argv.rebind":
		return qlist(m.argv)
	case "builtins.len":
		if v, ok := m.vals[loc]; ok {
			return q(v)
		}
		return "2"
	case "srcmod.val":
		if !m.importShm() {
			return "\"exc\" \"ImportError\""
		}
		if v, ok := m.vals[loc]; ok {
			return q(v)
		}
		return q(m.marker)
	case "srcmod.list":
		if !m.importShm() {
			return "\"exc\" \"ImportError\""
		}
		return qlist(m.shmList)
	case "srcmod.dict":
		if !m.importShm() {
			return "\"exc\" \"ImportError\""
		}
		var keys []string
		for k := range m.shmDict {
			keys = append(keys, k)
		}
		sortStrings(keys)
		return qlist(keys)
	case "func.default":
		return qlist(m.defaults)
	case "os.environ":
		if v, ok := m.vals[loc]; ok {
			return q(v)
		}
		return q("unset")
	case "print.capture", "print.fault":
		if v, ok := m.vals["print.capture"]; ok {
			return q(v)
		}
		return q("not-captured")
	case "type.subclasses":
		return "[]"
	case "regsrc.val":
		v := "rs"
		if w, ok := m.vals[loc]; ok {
			v = w
		}
		return fmt.Sprintf("(%s,%s)", q(v), qlist(m.regList))
	case "nested.cfg":
		if !m.importHlp() {
			return "\"exc\" \"ImportError\""
		}
		v := "cfg"
		if w, ok := m.vals[loc]; ok {
			v = w
		}
		return "(" + q(v) + "," + q(m.marker) + ")"
	case "string.attr":
		if v, ok := m.vals[loc]; ok {
			return q(v)
		}
		return q("0123456789")
	case "const.bytes":
		if v, ok := m.vals[loc]; ok {
			return q(v)
		}
		return q("b'init'")
	case "exc.syntax":
		if v, ok := m.vals[loc]; ok {
			return v
		}
		return "(None,None)"
	case "exc.eof":
		if v, ok := m.vals[loc]; ok {
			return v
		}
		return "None"
	case "modimpl.conf":
		note := "none"
		if v, ok := m.vals[loc]; ok {
			note = v
		}
		return fmt.Sprintf("(%d,%s)", 100+m.idx, q(note))
	}
	return "None"
}

func sortStrings(a []string) {
	for i := 1; i < len(a); i++ {
		for j := i; j > 0 && a[j] < a[j-1]; j-- {
			a[j], a[j-1] = a[j-1], a[j]
		}
	}
}

// expectedReads returns, for a program, statement index -> expected log line.
func expectedReads(p Program, lib, marker string, idx int) map[int]string {
	m := newCtxModel(lib, marker, idx)
	out := map[int]string{}
	for i, s := range p.Stmts {
		switch s.K {
		case "write":
			m.write(s.Loc, s.V)
		case "read":
			out[i] = fmt.Sprintf("%d %s %s", i, q(s.Loc), m.read(s.Loc))
		}
	}
	return out
}

// checkAgainstModel compares the read lines of a trace with the model.
func checkAgainstModel(trace []string, want map[int]string) (loc, detail string) {
	seen := map[int]bool{}
	for _, l := range trace {
		sp := strings.IndexByte(l, ' ')
		if sp <= 0 {
			continue
		}
		idx, err := strconv.Atoi(l[:sp])
		if err != nil {
			continue
		}
		w, ok := want[idx]
		if !ok {
			continue // spin lines etc.
		}
		seen[idx] = true
		if l != w {
			return locOf(w), fmt.Sprintf("logged %s, the context's own history implies %s", l, w)
		}
	}
	for idx, w := range want {
		if !seen[idx] {
			return locOf(w), fmt.Sprintf("read statement %d logged nothing, expected %s", idx, w)
		}
	}
	return "", ""
}
