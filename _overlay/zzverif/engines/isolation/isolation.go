// Package isolation is the C08 engine (mode A, deterministic interleaving):
// several contexts, one cooperative task each, run generated programs that
// write to and read back every piece of per-context state they can reach,
// interleaved at VM-instruction granularity by a seeded scheduler.  Each
// context's trace must equal the trace of the same program run alone, and
// the process-global state a fresh context is built from must not change.
package isolation

import (
	"encoding/json"
	"fmt"
	"sort"
	"strings"

	"github.com/go-python/gpython/py"
	gprepl "github.com/go-python/gpython/repl"
	"github.com/go-python/gpython/simrt"
	"github.com/go-python/gpython/simrt/simfs"
	"github.com/go-python/gpython/zzverif/harness"
	"github.com/go-python/gpython/zzverif/pyhost"
)

type Stmt struct {
	K   string `json:"k"` // write | read | spin | defs
	Loc string `json:"loc"`
	V   int    `json:"v"`
}

type Program struct {
	Stmts []Stmt `json:"stmts"`
}

type Scenario struct {
	Progs      []Program      `json:"progs"`
	SharedCode bool           `json:"shared_code"`         // all contexts run ONE compiled code object (program 0)
	Repl       bool           `json:"repl,omitempty"`      // after its program every context feeds three expressions to a REPL of its own; the echoes must reach its own UI
	RelPaths   bool           `json:"rel_paths,omitempty"` // every context has sys.path ["."] and runs its program from a file in its own directory
	Policy     string         `json:"policy"`
	PNum       int            `json:"pnum"`
	Depth      int            `json:"depth"`
	SSeed      uint64         `json:"sseed"`
	Order      simrt.MapOrder `json:"order"`
}

type Engine struct{}

func init() { harness.Register(Engine{}) }

func (Engine) Name() string     { return "isolation" }
func (Engine) Property() string { return "C08" }

// Locs are the pieces of state a program can reach.  Every one of them must
// be private to a context.
var Locs = []string{
	"global", "math.attr", "math.new", "sys.path.append", "sys.path.rebind", "sys.argv.inplace", "sys.argv.rebind",
	"builtins.new", "builtins.len", "srcmod.val", "srcmod.list", "srcmod.dict", "class.attr", "func.default",
	"type.int", "type.list", "type.exc", "os.environ", "string.attr", "time.attr", "sys.new", "print.capture", "nested.cfg",
	"const.bytes", "exc.syntax", "modimpl.conf", "exc.eof", "print.fault", "type.subclasses", "regsrc.val",
}

// RegisterScenarioModules gives every scenario a freshly registered source
// module (process-wide registry, py.RegisterModule): whatever the registry's
// ModuleImpl initialises lazily at the first import happens while this
// scenario's contexts import it - possibly at the same time.
func RegisterScenarioModules() {
	py.RegisterModule(&py.ModuleImpl{Info: py.ModuleInfo{Name: "regsrc", FileDesc: "<regsrc>"}, CodeSrc: "val = \"rs\"\nlst = []\n"})
}

var eofSources = []string{"x = (\n", "if x:\n", "def f(a,\n", "s = \"\"\"abc\n", "v = [1,\n  2,\n", "class C:\n",
	// rejected by the lexer with tokens already queued: a dedent to a column no enclosing block has, an unclosed bracket inside an indented block, a bad escape
	"if x:\n        a = 1\n    b = 2\n", "def f():\n      return 1\n   x = 2\n", "def f():\n    return (1,\n", "class K:\n    @dec\n", "key = 'abc\\x4'\n"}

// BadSources fail in the compiler proper (after parsing), each at its own line.
var BadSources = []string{
	"continue\n", "\nbreak\n", "\n\nreturn 3\n", "def f(a, a):\n    pass\n", "\nnonlocal q\n", "def g():\n    nonlocal zz\n",
	"try:\n    pass\nfinally:\n    continue\n", "\n\n\nyield 1\n", "for i in range(3):\n    pass\nelse:\n    continue\n",
}

var badLines = []int{1, 2, 3, 1, 2, 2, 4, 4, 4}

func writeStmt(loc string, v int) string {
	// every written value carries the context's tag CT (derived from the
	// context's own sys.path entry): contexts that execute the SAME code object
	// still write distinguishable values
	val := fmt.Sprintf("(\"w%d\" + CT)", v)
	switch loc {
	case "exc.syntax":
		// a SyntaxError kept by the program and inspected later: the instance
		// (with the file name and line it carries) belongs to this compilation
		return fmt.Sprintf("try:\n    compile(%q, \"f%d\" + CT + \".py\", \"exec\")\n    held = None\nexcept SyntaxError as _se:\n    held = _se", BadSources[v%len(BadSources)], v)
	case "exc.eof":
		// the same with truncated input (the error is made at end of input)
		return fmt.Sprintf("try:\n    compile(%q, \"e%d\" + CT + \".py\", \"exec\")\n    held2 = None\nexcept SyntaxError as _se:\n    held2 = _se", eofSources[v%len(eofSources)], v)
	case "modimpl.conf":
		// a module the embedder initialised from source, per context
		return "import ctxconf\nctxconf.note = " + val
	case "const.bytes":
		// an in-place operator applied to a value that starts out as a constant of
		// the (possibly shared) code object
		return fmt.Sprintf("bb = b\"k%d\"\nbb += BT", v)
	case "global":
		return "gv = " + val
	case "math.attr":
		return "import math\nmath.pi = " + val
	case "math.new":
		return "import math\nmath.zz_new = " + val
	case "sys.path.append":
		return "import sys\nsys.path.append(" + val + ")"
	case "sys.path.rebind":
		return "import sys\nsys.path = [" + val + "]"
	case "sys.argv.inplace":
		return "import sys\nsys.argv.append(" + val + ")"
	case "sys.argv.rebind":
		return "import sys\nsys.argv = [" + val + "]"
	case "sys.new":
		return "import sys\nsys.zz_new = " + val
	case "builtins.new":
		return "import builtins\nbuiltins.zz_new = " + val
	case "builtins.len":
		return "import builtins\nbuiltins.len = lambda x: " + val
	case "srcmod.val":
		return "try:\n    import shm\n    shm.val = " + val + "\nexcept ImportError:\n    pass"
	case "srcmod.list":
		return "try:\n    import shm\n    shm.lst.append(" + val + ")\nexcept ImportError:\n    pass"
	case "srcmod.dict":
		return "try:\n    import shm\n    shm.dct[" + val + "] = 1\nexcept ImportError:\n    pass"
	case "class.attr":
		return "K.attr = " + val
	case "func.default":
		return "fdef(" + val + ")"
	case "type.int":
		return "try:\n    int.zz_attr = " + val + "\nexcept TypeError:\n    pass"
	case "type.list":
		return "try:\n    list.zz_attr = " + val + "\nexcept TypeError:\n    pass"
	case "type.exc":
		return "try:\n    ValueError.zz_attr = " + val + "\nexcept TypeError:\n    pass"
	case "nested.cfg":
		// hlp.py (one shared file, same directory for every context) imports cfg,
		// which each context finds in its OWN directory
		return "try:\n    import hlp\n    hlp.cfg.val = " + val + "\nexcept ImportError:\n    pass"
	case "print.capture":
		// print() must write to THIS context's sys.stdout
		return "import sys\nsys.stdout = _Cap()\nprint(" + val + ")"
	case "print.fault":
		// environment fault: this context's stdout fails in the middle of a
		// print; what was being printed must not surface anywhere else, and the
		// next print (to a healthy stream) prints exactly its own text
		return fmt.Sprintf("import sys\nsys.stdout = _Bad(%d)\ntry:\n    print(\"lost\" + CT, %s, \"tail\")\nexcept ValueError:\n    pass\nsys.stdout = _Cap()\nprint(%s)", v%3, val, val)
	case "regsrc.val":
		// a source module registered process-wide by the embedder: each context gets its own instance
		return "import regsrc\nregsrc.val = " + val + "\nregsrc.lst.append(" + val + ")"
	case "type.subclasses":
		// a class created at run time belongs to the context that created it
		return "class ZZsub:\n    owner = CT\n    mark = " + val
	case "os.environ":
		return "import os\nos.environ[\"ZZ_SIM\"] = " + val
	case "string.attr":
		return "import string\nstring.digits = " + val
	case "time.attr":
		return "import time\ntime.zz_new = " + val
	}
	return "pass"
}

func readExpr(loc string) (prelude, expr string) {
	switch loc {
	case "global":
		return "", "gv"
	case "math.attr":
		return "import math", "math.pi == 3.141592653589793 or math.pi"
	case "math.new":
		return "import math", "math.zz_new"
	case "sys.path.append", "sys.path.rebind":
		return "import sys", "list(sys.path)"
	case "sys.argv.inplace", "sys.argv.rebind":
		return "import sys", "list(sys.argv)"
	case "sys.new":
		return "import sys", "sys.zz_new"
	case "builtins.new":
		return "import builtins", "builtins.zz_new"
	case "builtins.len":
		return "", "len([1, 2])"
	case "srcmod.val":
		return "import shm", "shm.val"
	case "srcmod.list":
		return "import shm", "list(shm.lst)"
	case "srcmod.dict":
		return "import shm", "sorted(shm.dct.keys())"
	case "class.attr":
		return "", "K.attr"
	case "func.default":
		return "", "fdef()"
	case "type.int":
		return "", "int.zz_attr"
	case "type.list":
		return "", "list.zz_attr"
	case "type.exc":
		return "", "ValueError.zz_attr"
	case "nested.cfg":
		return "import hlp", "(hlp.cfg.val, hlp.cfg.home)"
	case "print.capture", "print.fault":
		return "import sys", "_captured(sys.stdout)"
	case "type.subclasses":
		return "", "_foreign_subclasses()"
	case "regsrc.val":
		return "import regsrc", "(regsrc.val, list(regsrc.lst))"
	case "os.environ":
		return "import os", "os.environ.get(\"ZZ_SIM\", \"unset\")"
	case "string.attr":
		return "import string", "string.digits"
	case "time.attr":
		return "import time", "time.zz_new"
	case "const.bytes":
		return "", "repr(bb)"
	case "exc.syntax":
		return "", "exc_loc(held)"
	case "modimpl.conf":
		return "import ctxconf", "(ctxconf.WORKER, ctxconf.note)"
	case "exc.eof":
		return "", "exc_loc(held2)[0]"
	}
	return "", "None"
}

const progPrelude = `from simlog import log, exc_name, exc_loc
held = None
held2 = None
import sys
CT = sys.path[0][-1:]
BT = {"0": b"0", "1": b"1", "2": b"2", "3": b"3"}.get(CT, b"x")
bb = b"init"
gv = "init"
class K:
    attr = "init"
def fdef(x=None, acc=[]):
    if x is not None:
        acc.append(x)
    return list(acc)
class _Cap:
    def __init__(self):
        self.buf = []
    def write(self, s):
        self.buf.append(s)
    def flush(self):
        pass
class _Bad:
    def __init__(self, k):
        self.k = k
    def write(self, s):
        self.k -= 1
        if self.k < 0:
            raise ValueError("stream broken")
    def flush(self):
        pass
def _foreign_subclasses():
    # classes of OTHER contexts reachable through the shared built-in type object
    f = getattr(object, "__subclasses__", None)
    if f is None:
        return []
    return sorted([c.mark for c in f() if c.__name__[:2] == "ZZ" and c.owner != CT])
def _captured(o):
    if type(o) is _Cap:
        return "".join(o.buf)
    return "not-captured"
def kw(a, b=2, *rest, c=3, d=4, **more):
    return (a, b, rest, c, d, sorted(more.keys()))
def kw12(p0, p1=1, p2=2, p3=3, p4=4, p5=5, p6=6, p7=7, p8=8, p9=9, *, k0=10, k1=11):
    return p0 + p1 * 2 + p5 * 3 + p9 * 5 + k0 * 7 + k1 * 11
def kw20(q0, q1=1, q2=2, q3=3, q4=4, q5=5, q6=6, q7=7, q8=8, q9=9, q10=10, q11=11, q12=12, q13=13, q14=14, q15=15, q16=16, q17=17, *, r0=18, r1=19):
    return q0 + q7 * 2 + q16 * 3 + q17 * 5 + r0 * 7 + r1 * 11
def mkcounter(start):
    n = [start]
    def inc(step=1):
        n[0] += step
        return n[0]
    return inc
def gen3(base):
    for i in range(3):
        yield base + i
class Box:
    count = 0
    def __init__(self, v, scale=1):
        self.v = v * scale
        Box.count += 1
    def get(self, add=0):
        return self.v + add
def workout(k):
    out = [kw(k, c=k + 1), kw(k, k, k, d=5, zz=1, yy=2), kw(a=k, b=k)]
    out.append([kw12(k, p9=k, k1=2), kw12(p0=1, p5=k, k0=k), kw12(k, 1, 2, 3, 4, 5, 6, 7, p8=0, p9=k)])
    out.append([kw20(k, q17=k, r1=2), kw20(q0=1, q16=k, r0=k), kw20(k, q9=1)])
    inc = mkcounter(k)
    out.append([inc(), inc(step=2)])
    out.append(list(gen3(k)))
    out.append(sorted({str(i): i * k for i in range(3)}.items() if False else [str(i) for i in range(3)]))
    b = Box(k, scale=2)
    out.append((b.get(), b.get(add=1), Box.count > 0))
    try:
        [][k]
    except IndexError as e:
        out.append(exc_name(e))
    out.append("%s-%d" % ("w", k))
    out.append([x * y for x in range(2) for y in range(k % 3 + 1)])
    return out
`

func (p Program) Render() string {
	var b strings.Builder
	b.WriteString(progPrelude)
	for i, s := range p.Stmts {
		switch s.K {
		case "write":
			b.WriteString(writeStmt(s.Loc, s.V))
			b.WriteByte('\n')
		case "read":
			pre, e := readExpr(s.Loc)
			if pre == "" {
				pre = "pass"
			}
			fmt.Fprintf(&b, "try:\n    %s\n    log(%d, \"%s\", %s)\nexcept Exception as _e:\n    log(%d, \"%s\", \"exc\", exc_name(_e))\n", pre, i, s.Loc, e, i, s.Loc)
		case "spin":
			fmt.Fprintf(&b, "_t = 0\nfor _i in range(%d):\n    _t += _i\nlog(%d, \"spin\", _t, workout(%d))\n", s.V, i, s.V%5)
		}
	}
	return b.String()
}

func shmSrc(marker string) string {
	return "val = \"" + marker + "\"\nlst = []\ndct = {}\n"
}

// every context gets its own sys.path directory; the same module name resolves
// to a different file in each
func libOf(c int) (dir, marker string) {
	return fmt.Sprintf("/simcwd/lib%d", c%2), fmt.Sprintf("init%d", c%2)
}

// relative mode: identical sys.path ["."] everywhere, the program is a file in
// the context's own project directory and imports resolve relative to it
func projOf(c int) (dir, marker string) {
	return fmt.Sprintf("/simcwd/proj%d", c), fmt.Sprintf("proj%d", c)
}

func (Engine) Gen(seed uint64, idx int, tier string) interface{} {
	r := simrt.NewRand(simrt.Mix(seed, 0x08, uint64(idx)))
	excl := harness.Excluded("isolation")
	sc := &Scenario{SSeed: r.Uint64(), Order: simrt.MapOrder{Kind: r.Intn(4), K: r.Uint64()}}
	sc.SharedCode = r.Chance(1, 5)
	sc.RelPaths = !sc.SharedCode && r.Chance(1, 4)
	sc.Repl = r.Chance(1, 4)
	var locs []string
	for _, l := range Locs {
		if excl[l] {
			continue
		}
		if l == "nested.cfg" && sc.RelPaths {
			// in relative mode hlp.py's own import of cfg resolves against hlp's
			// directory and fails; a repeated import of the half-initialised hlp
			// is outside what C08 (or C19) states
			continue
		}
		locs = append(locs, l)
	}
	n := 2 + r.Intn(3)
	if r.Chance(1, 12) {
		n = 7 + r.Intn(4) // many contexts (per-context tables indexed or sized by context count)
	}
	if tier == "thorough" && r.Chance(1, 3) {
		n = 4 + r.Intn(4)
	}
	// a few hot locations per scenario so that writers and readers collide
	hot := make([]string, 1+r.Intn(4))
	for i := range hot {
		hot[i] = locs[r.Intn(len(locs))]
	}
	for c := 0; c < n; c++ {
		var p Program
		ns := 4 + r.Intn(14)
		if r.Chance(1, 6) {
			ns = 45 + r.Intn(40) // long module body: line tables, constant tables beyond small-size thresholds
		}
		for i := 0; i < ns; i++ {
			loc := hot[r.Intn(len(hot))]
			if r.Chance(1, 4) {
				loc = locs[r.Intn(len(locs))]
			}
			switch x := r.Intn(10); {
			case x < 4:
				p.Stmts = append(p.Stmts, Stmt{K: "write", Loc: loc, V: c*1000 + i})
			case x < 8:
				p.Stmts = append(p.Stmts, Stmt{K: "read", Loc: loc})
			default:
				p.Stmts = append(p.Stmts, Stmt{K: "spin", V: 1 + r.Intn(20)})
			}
		}
		for _, h := range hot {
			p.Stmts = append(p.Stmts, Stmt{K: "read", Loc: h})
		}
		sc.Progs = append(sc.Progs, p)
	}

	switch r.Intn(4) {
	case 0:
		sc.Policy, sc.PNum = "random", 1+r.Intn(60)
	case 1:
		sc.Policy, sc.Depth = "pct", 1+r.Intn(4)
	case 2:
		sc.Policy, sc.PNum = "quantum", 1+r.Intn(300)
	default:
		sc.Policy, sc.PNum = "quantum", 1+r.Intn(20)
	}
	return sc
}

func (Engine) Decode(raw json.RawMessage) (interface{}, error) {
	var sc Scenario
	if err := json.Unmarshal(raw, &sc); err != nil {
		return nil, err
	}
	return &sc, nil
}

func (Engine) Prepare(batch []interface{}) error { return nil }

func (Engine) Reseed(sci interface{}, k uint64) interface{} {
	sc := *(sci.(*Scenario))
	sc.SSeed = simrt.Mix(sc.SSeed, k)
	switch k % 3 {
	case 1:
		sc.Policy, sc.PNum = "quantum", 1+int(k*7%200)
	case 2:
		sc.Policy, sc.PNum = "random", 1+int(k*13%60)
	}
	return &sc
}

func clone(sc *Scenario) *Scenario {
	b, _ := json.Marshal(sc)
	var c Scenario
	json.Unmarshal(b, &c)
	return &c
}

func (Engine) Shrink(sci interface{}) []interface{} {
	sc := sci.(*Scenario)
	var out []interface{}
	if len(sc.Progs) > 2 {
		for i := range sc.Progs {
			c := clone(sc)
			c.Progs = append(c.Progs[:i], c.Progs[i+1:]...)
			out = append(out, c)
		}
	}
	for pi, p := range sc.Progs {
		// halves first, then single statements
		if len(p.Stmts) > 3 {
			c := clone(sc)
			c.Progs[pi].Stmts = c.Progs[pi].Stmts[:len(p.Stmts)/2]
			out = append(out, c)
			c = clone(sc)
			c.Progs[pi].Stmts = c.Progs[pi].Stmts[len(p.Stmts)/2:]
			out = append(out, c)
		}
		for i := range p.Stmts {
			c := clone(sc)
			c.Progs[pi].Stmts = append(c.Progs[pi].Stmts[:i], c.Progs[pi].Stmts[i+1:]...)
			out = append(out, c)
		}
	}
	if sc.SharedCode {
		c := clone(sc)
		c.SharedCode = false
		out = append(out, c)
	}
	return out
}

func (Engine) Describe() harness.EngineInfo {
	return harness.EngineInfo{
		Rule:        "scenario = 2-4 contexts, each running a generated program of 4-17 statements that write context-specific values to and read back " + fmt.Sprint(len(Locs)) + " kinds of reachable state (module globals, attributes of Go modules math/sys/string/time/os incl. os.environ, sys.path and sys.argv in place and by rebinding, new and rebound builtins, a source module imported from a shared virtual file system incl. its list and dict, class attributes, mutable default arguments, attributes of the built-in types int/list/ValueError, a bytes value built in place from a constant of the code object, a SyntaxError kept from a failed compile() and inspected later, a source module registered process-wide anew for every scenario, classes of other contexts reachable through object.__subclasses__(), a sys.stdout whose write() raises in the middle of a print followed by a print to a healthy stream; every written value carries a tag derived from the context's own sys.path entry so that contexts executing one shared code object write distinguishable values) plus compute loops; 1-4 'hot' locations per scenario so writers and readers collide; 1 in 5 scenarios runs ONE shared code object in all contexts. Tasks are interleaved at every VM instruction and compile-pipeline function entry by a seeded scheduler (random p / PCT d<=4 / quantum). Oracles: solo-run equivalence per context, fingerprint of process-global state (registered module implementations and built-in type dictionaries) unchanged, no panic/deadlock. distinct = distinct (programs, schedule decisions); non-trivial = some location is written by one context and read by another",
		Real:        []string{"stdlib.context, py.ModuleStore, py.Import machinery", "vm (all contexts share the Go process, package-level state and type objects)", "stdlib modules sys, builtins, math, os, string, time", "parser/symtable/compile (each context compiles its own program)"},
		Stubbed:     []string{"goroutine interleaving -> cooperative tasks, one per context, preempted at every VM instruction by the seeded scheduler", "sync -> simsync", "file system behind import -> simfs", "Go map iteration order -> simulator"},
		Assumptions: []string{"os.putenv/chdir (process-wide by nature) are not used; only the os.environ mapping object is probed", "data races proper are decided by mode B (real goroutines under the Go race detector), not by this cooperative mode"},
		TimeUnit:    "VM instructions (scheduler steps)",
	}
}

// fingerprint summarises the process-global state every new context is built from.
func fingerprint() string {
	var parts []string
	mods := []string{"builtins", "sys", "math", "os", "string", "time", "binascii", "array", "tempfile", "glob", "marshal", "simlog"}
	for _, name := range mods {
		impl := py.GetModuleImpl(name)
		if impl == nil {
			continue
		}
		parts = append(parts, "M:"+name+":"+dictShape(impl.Globals, 0))
		if impl.Code != nil {
			parts = append(parts, "M:"+name+":code")
		}
	}
	types := []*py.Type{py.IntType, py.FloatType, py.StringType, py.ListType, py.TupleType, py.StringDictType, py.SetType, py.BoolType, py.NoneTypeType,
		py.ObjectType, py.TypeType, py.BaseException, py.ExceptionType, py.ValueError, py.KeyError, py.TypeError, py.StopIteration, py.ImportError, py.OSError, py.BytesType, py.RangeType, py.FunctionType, py.ModuleType}
	for _, t := range types {
		parts = append(parts, "T:"+t.Name+":"+dictKeys(t.Dict))
	}
	return strings.Join(parts, "\n")
}

func dictKeys(d py.StringDict) string {
	keys := make([]string, 0, len(d))
	for k := range d {
		keys = append(keys, k)
	}
	sort.Strings(keys)
	return strings.Join(keys, ",")
}

func dictShape(d py.StringDict, depth int) string {
	keys := make([]string, 0, len(d))
	for k := range d {
		keys = append(keys, k)
	}
	sort.Strings(keys)
	var b strings.Builder
	for _, k := range keys {
		b.WriteString(k)
		switch v := d[k].(type) {
		case py.StringDict:
			if depth < 2 {
				b.WriteString("={" + dictShape(v, depth+1) + "}")
			}
		case *py.List:
			b.WriteString("=" + pyhost.Canon(v))
		case py.String, py.Int, py.Float, py.Bool:
			b.WriteString("=" + pyhost.Canon(v))
		}
		b.WriteByte(';')
	}
	return b.String()
}

func replBase(sc *Scenario, i int) int {
	if !sc.Repl {
		return -1
	}
	return 1000 * (i + 1)
}

func mkSched(sc *Scenario) simrt.Scheduler {
	r := simrt.NewRand(sc.SSeed)
	switch sc.Policy {
	case "random":
		return &simrt.RandomSched{R: r, Num: uint64(sc.PNum), Den: 2000}
	case "pct":
		return simrt.NewPCT(r, sc.Depth, 40000)
	case "quantum":
		return &simrt.QuantumSched{R: r, Min: 1, Max: sc.PNum}
	}
	return simrt.DefaultSched{}
}

type ctxOut struct {
	trace  []string
	exc    string
	echoes []string
}

type uiRec struct{ prints *[]string }

func (u uiRec) SetPrompt(string) {}
func (u uiRec) Print(s string)   { *u.prints = append(*u.prints, s) }

// InitConf is the embedder giving a context its own configuration module: the
// same module name and a body of the same length in every context, different
// content.
func InitConf(ctx py.Context, idx int) error {
	_, err := ctx.ModuleInit(&py.ModuleImpl{Info: py.ModuleInfo{Name: "ctxconf"}, CodeSrc: fmt.Sprintf("WORKER = %d\nnote = \"none\"\n", 100+idx)})
	return err
}

func runProgram(idx int, src string, code *py.Code, lib string, file string, replBase int) (o ctxOut) {
	defer func() {
		// (runs after the session work below; see the deferred block there)
	}()
	s, err := pyhost.NewSession([]string{lib, "/simcwd/common"})
	if err != nil {
		o.exc = "SETUP:" + err.Error()
		return o
	}
	defer s.Close()
	defer func() {
		if r := recover(); r != nil {
			o.exc = "PANIC: " + fmt.Sprint(r)
		}
		o.trace = s.Trace
	}()
	if err := InitConf(s.Ctx, idx); err != nil {
		o.exc = "SETUP:" + err.Error()
		return o
	}
	if replBase >= 0 {
		defer func() {
			rp := gprepl.New(s.Ctx)
			rp.SetUI(uiRec{&o.echoes})
			for i := 0; i < 3; i++ {
				rp.Run(fmt.Sprintf("%d + %d", replBase, i))
			}
		}()
	}
	if file != "" {
		_, err := py.RunFile(s.Ctx, file, py.CompileOpts{}, nil)
		o.exc = pyhost.ExcClass(err)
	} else if code == nil {
		o.exc = s.Run(src, "<prog>")
	} else {
		_, err := s.Ctx.RunCode(code, s.Main.Globals, s.Main.Globals, nil)
		o.exc = pyhost.ExcClass(err)
	}
	return o
}

func (Engine) Exec(sci interface{}, opt harness.ExecOpts) *harness.Outcome {
	sc := sci.(*Scenario)
	out := &harness.Outcome{}
	fs := simfs.New()
	fs.AddFile("/simcwd/lib0/shm.py", shmSrc("init0"))
	fs.AddFile("/simcwd/lib1/shm.py", shmSrc("init1"))
	fs.AddFile("/simcwd/common/hlp.py", "import cfg\n")
	fs.AddFile("/simcwd/lib0/cfg.py", "val = \"cfg\"\nhome = \"init0\"\n")
	fs.AddFile("/simcwd/lib1/cfg.py", "val = \"cfg\"\nhome = \"init1\"\n")
	simfs.Install(fs)
	defer simfs.Install(nil)

	srcs := make([]string, len(sc.Progs))
	for i, p := range sc.Progs {
		if sc.SharedCode {
			srcs[i] = sc.Progs[0].Render()
		} else {
			srcs[i] = p.Render()
		}
	}
	place := func(i int) (lib, marker, file string) {
		if sc.RelPaths {
			d, m := projOf(i)
			// relative to the simulated working directory /simcwd (the resolver
			// re-roots absolute path names given to RunFile)
			return ".", m, strings.TrimPrefix(d, "/simcwd/") + "/main.py"
		}
		l, m := libOf(i)
		return l, m, ""
	}
	if sc.RelPaths {
		for i := range srcs {
			d, m := projOf(i)
			fs.AddFile(d+"/shm.py", shmSrc(m))
			fs.AddFile(d+"/cfg.py", "val = \"cfg\"\nhome = \""+m+"\"\n")
			fs.AddFile(d+"/main.py", srcs[i])
		}
	}
	var shared *py.Code
	if sc.SharedCode && !sc.RelPaths {
		c, err := py.Compile(srcs[0], "<prog>", py.ExecMode, 0, true)
		if err != nil {
			out.Infra = "compile shared program: " + err.Error()
			return out
		}
		shared = c
	}
	RegisterScenarioModules()
	before := fingerprint()

	// solo runs: each program alone, one after the other, in its own simulation
	solo := make([]ctxOut, len(srcs))
	for i := range srcs {
		i := i
		sim := simrt.New(simrt.Config{MaxSteps: 20000000, Order: sc.Order})
		lib, _, file := place(i)
		sim.Spawn("solo", func() { solo[i] = runProgram(i, srcs[i], shared, lib, file, replBase(sc, i)) })
		res := sim.Run()
		out.Steps += res.Steps
		if len(res.Panics) > 0 || res.Capped {
			out.Violate("panic", "panic|solo", "solo run of program %d panicked or hung: %+v", i, res.Panics)
			return out
		}
	}
	mid := fingerprint()

	var sched simrt.Scheduler
	if opt.UseSched {
		sched = simrt.NewReplaySched(opt.Schedule)
	} else {
		sched = mkSched(sc)
	}
	inter := make([]ctxOut, len(srcs))
	sim := simrt.New(simrt.Config{MaxSteps: 60000000, Sched: sched, Order: sc.Order, KeepLog: opt.KeepLog})
	for i := range srcs {
		i := i
		lib, _, file := place(i)
		sim.Spawn(fmt.Sprintf("ctx%d", i), func() { inter[i] = runProgram(i, srcs[i], shared, lib, file, replBase(sc, i)) })
	}
	res := sim.Run()
	after := fingerprint()
	out.Steps += res.Steps
	out.Switches = res.Switches
	out.Decisions = res.Decisions
	out.Capped = res.Capped
	h := res.LogHash
	for _, o := range inter {
		h = simrt.MixStr(h, strings.Join(o.trace, "\n")+o.exc)
	}
	out.LogHash = h
	if opt.KeepLog {
		for i, o := range inter {
			for _, l := range o.trace {
				out.Trace = append(out.Trace, fmt.Sprintf("ctx%d %s", i, l))
			}
		}
	}
	for _, p := range res.Panics {
		out.Violate("panic", "panic|"+firstLine(p.Value), "task %s: %s\n%s", p.Name, p.Value, p.Stack)
	}
	if res.Capped || res.Deadlock {
		out.Violate("hang", "hang", "interleaved run did not finish (capped=%v deadlock=%v %v)", res.Capped, res.Deadlock, res.DeadlockAt)
	}
	if len(out.Violations) > 0 {
		return out
	}
	if before != mid || mid != after {
		what := diffLines(before, after)
		out.Violate("process-global-state-changed", "global|"+globalKind(what), "state from which every new context is built changed while the programs ran: %s", what)
	}
	for i := range srcs {
		if strings.HasPrefix(inter[i].exc, "PANIC") {
			out.Violate("panic", "panic|"+firstLine(inter[i].exc), "context %d: %s", i, inter[i].exc)
			continue
		}
		prog := sc.Progs[i]
		if sc.SharedCode {
			prog = sc.Progs[0]
		}
		lib, marker, _ := place(i)
		want := expectedReads(prog, lib, marker, i)
		if loc, d := checkAgainstModel(solo[i].trace, want); d != "" {
			out.Violate("context-observes-another-context", "model|solo|"+loc, "context %d, run ALONE (after other contexts of this process had run): %s (program ended with %q)", i, d, solo[i].exc)
			continue
		}
		if loc, d := checkAgainstModel(inter[i].trace, want); d != "" {
			out.Violate("context-observes-another-context", "model|"+loc, "context %d beside %d other context(s): %s (program ended with %q)", i, len(srcs)-1, d, inter[i].exc)
			continue
		}
		if sc.Repl {
			want := []string{fmt.Sprint(1000*(i+1) + 0), fmt.Sprint(1000*(i+1) + 1), fmt.Sprint(1000*(i+1) + 2)}
			for _, which := range []struct {
				name string
				got  []string
			}{{"alone", solo[i].echoes}, {"beside other contexts", inter[i].echoes}} {
				if strings.Join(which.got, ",") != strings.Join(want, ",") {
					out.Violate("context-observes-another-context", "model|repl.echo", "context %d (%s): its REPL's UI received the echoes %q, its own expressions have the values %q", i, which.name, which.got, want)
					break
				}
			}
		}
		if d := pyhost.DiffTrace(inter[i].trace, solo[i].trace); d != "" || inter[i].exc != solo[i].exc {
			loc := locOf(d)
			out.Violate("context-observes-another-context", "leak|"+loc, "context %d ran beside %d other context(s) and observed something different from its solo run: %s (interleaved / solo; exc %q / %q)", i, len(srcs)-1, d, inter[i].exc, solo[i].exc)
		}
	}
	// coverage
	writers := map[string]map[int]bool{}
	readers := map[string]map[int]bool{}
	for c, p := range sc.Progs {
		if sc.SharedCode {
			p = sc.Progs[0]
		}
		for _, s := range p.Stmts {
			m := readers
			if s.K == "write" {
				m = writers
			} else if s.K != "read" {
				continue
			}
			if m[s.Loc] == nil {
				m[s.Loc] = map[int]bool{}
			}
			m[s.Loc][c] = true
		}
	}
	cross := false
	for loc, ws := range writers {
		for w := range ws {
			for rd := range readers[loc] {
				if rd != w {
					cross = true
					out.Probe("cross:" + loc)
				}
			}
		}
	}
	if sc.SharedCode {
		out.Probe("shared_code_object")
	}
	if res.Switches > 4 {
		out.Probe("interleaved")
	}
	if cross {
		b, _ := json.Marshal(sc.Progs)
		out.Shape = fmt.Sprintf("%x|%x", simrt.MixStr(0, string(b)), res.LogHash)
	}
	return out
}

func locOf(diff string) string {
	// diff looks like: line N: gpython 3 "sys.path.append" [...], reference ...
	for _, l := range Locs {
		if strings.Contains(diff, "\""+l+"\"") {
			return l
		}
	}
	return "?"
}

func globalKind(what string) string {
	if strings.HasPrefix(what, "T:") {
		f := strings.SplitN(what, ":", 3)
		if len(f) > 1 {
			return "type:" + f[1]
		}
	}
	if strings.HasPrefix(what, "M:") {
		f := strings.SplitN(what, ":", 3)
		if len(f) > 1 {
			return "module:" + f[1]
		}
	}
	return "?"
}

func diffLines(a, b string) string {
	la, lb := strings.Split(a, "\n"), strings.Split(b, "\n")
	for i := 0; i < len(la) && i < len(lb); i++ {
		if la[i] != lb[i] {
			x, y := la[i], lb[i]
			if len(x) > 300 {
				x = x[:300]
			}
			if len(y) > 300 {
				y = y[:300]
			}
			return x + "  ->  " + y
		}
	}
	return "length"
}

func firstLine(s string) string {
	if i := strings.IndexByte(s, '\n'); i >= 0 {
		s = s[:i]
	}
	if len(s) > 100 {
		s = s[:100]
	}
	return s
}

func (Engine) Text(sci interface{}) string {
	var b strings.Builder
	for i, p := range sci.(*Scenario).Progs {
		fmt.Fprintf(&b, "# ---- context %d\n%s", i, p.Render())
	}
	return b.String()
}
