// Package gens is the C05 engine: seeded histories of next/send/consumption
// over several live generators and iterators with failing producers, compared
// step by step with the same history in CPython.
package gens

import (
	"encoding/json"
	"fmt"
	"sort"
	"strings"

	"github.com/go-python/gpython/simrt"
	"github.com/go-python/gpython/zzverif/gen"
	"github.com/go-python/gpython/zzverif/harness"
	"github.com/go-python/gpython/zzverif/pyhost"
)

type Scenario struct {
	Prog     *gen.IterProg  `json:"prog"`
	Order    simrt.MapOrder `json:"order"`
	HasRef   bool           `json:"has_ref"`
	RefTrace []string       `json:"ref_trace,omitempty"`
	RefExc   string         `json:"ref_exc,omitempty"`
}

type Engine struct{}

func init() { harness.Register(Engine{}) }

func (Engine) Name() string     { return "gens" }
func (Engine) Property() string { return "C05" }

// Exclude is the set of generator features switched off because a recorded
// known finding covers them (see known_findings.json); filled by the driver.
var Exclude = gen.IterExclude{}

func (Engine) Gen(seed uint64, idx int, tier string) interface{} {
	r := simrt.NewRand(simrt.Mix(seed, 0x05, uint64(idx)))
	gen.Scale = 1
	if tier == "thorough" && r.Chance(1, 2) {
		gen.Scale = 2
	}
	sc := &Scenario{Prog: gen.GenIter(r, Exclude), Order: simrt.MapOrder{Kind: r.Intn(4), K: r.Uint64()}}
	return sc
}

func (Engine) Decode(raw json.RawMessage) (interface{}, error) {
	var sc Scenario
	if err := json.Unmarshal(raw, &sc); err != nil {
		return nil, err
	}
	return &sc, nil
}

func (Engine) Prepare(batch []interface{}) error {
	var progs []pyhost.RefProgram
	for i, b := range batch {
		sc := b.(*Scenario)
		if !sc.HasRef {
			progs = append(progs, pyhost.RefProgram{ID: i, Main: sc.Prog.Render()})
		}
	}
	if len(progs) == 0 {
		return nil
	}
	res, err := pyhost.RunReference(progs)
	if err != nil {
		return err
	}
	for i, b := range batch {
		sc := b.(*Scenario)
		if sc.HasRef {
			continue
		}
		r := res[i]
		if r == nil || r.Error != "" {
			return fmt.Errorf("reference run of scenario %d failed: %+v", i, r)
		}
		sc.HasRef, sc.RefTrace, sc.RefExc = true, r.Trace, r.Exc
	}
	return nil
}

func (Engine) Reseed(sci interface{}, k uint64) interface{} {
	sc := *(sci.(*Scenario))
	sc.Order = simrt.MapOrder{Kind: int(k % 4), K: k}
	return &sc
}

func (Engine) Shrink(sci interface{}) []interface{} {
	sc := sci.(*Scenario)
	var out []interface{}
	for _, p := range gen.ShrinkIter(sc.Prog) {
		out = append(out, &Scenario{Prog: p, Order: sc.Order})
	}
	return out
}

func (Engine) Describe() harness.EngineInfo {
	return harness.EngineInfo{
		Rule:        "history = 3-12 caller operations over up to 4 live producers: create (generator function with try/finally and return value, user iterator class, iterable class, yield-from delegator, map/filter/genexp/zip/enumerate wrapper over an earlier producer, built-in list/range/tuple/str iterators), next, send, or one of 31 consumers (for, for+break+else, nested for, comprehensions, genexp, tuple/starred unpacking, star-call, list tuple set frozenset sum min max sorted zip map filter enumerate any all, in / not in, str.join, dict(zip)); producers fail at a seeded item with a seeded exception (class or instance) or end by raising StopIteration as class, instance or instance with value; every producer is probed twice after the history (exhausted stays exhausted). distinct = distinct program sources; non-trivial = at least one consumer applied or a producer that fails; also generator functions with a seeded RANDOM body (yields in statement and in operand position - half-built lists, calls, dicts, tuples pending across the suspension -, inside for/while loops, try/finally with and without a yield in the finally block, except handlers with a bare re-raise after the yield, with blocks, yield-from and for-loop delegation to inner generators, break / continue / return through pending finally blocks, one optional raise) in which a helper called by the body may resume THE RUNNING generator (next / send in operand position, for / list over itself: ValueError, pending operands untouched)",
		Real:        []string{"py.Generator / vm frames (suspend, resume, send, yield from, return value)", "vm FOR_ITER, UNPACK_*, CALL_FUNCTION_VAR", "py.Iterate / py.Next / sequence helpers", "builtin consumers (stdlib/builtin, py/zip.go, py/map.go, py/filter.go, py/enumerate.go)"},
		Stubbed:     []string{"the caller deciding which suspended generator resumes next and with which value -> seeded history", "the failing producer -> seeded fail position / exception", "reference semantics -> CPython 3.11 running the same history", "Go map iteration order -> simulator"},
		Assumptions: []string{"generator bodies never let StopIteration escape from inside a generator frame (PEP 479 changed that after 3.4); StopIteration is raised by iterator classes only", "only built-in exception classes are raised (user-defined exception subclasses cannot be instantiated in this tree); generator.throw/close are not part of the property", "observations are ints, strs, bools, None, lists/tuples of those, exception class names and StopIteration.args"},
		Fragment:    []string{"generator functions, yield, yield from, return value", "classes with __iter__/__next__", "for/while/try/finally/else, comprehensions, unpacking, star-calls", "builtins: next iter list tuple set frozenset sum min max sorted zip map filter enumerate any all dict str range len"},
		TimeUnit:    "VM instructions (scheduler steps)",
	}
}

func (Engine) Exec(sci interface{}, opt harness.ExecOpts) *harness.Outcome {
	sc := sci.(*Scenario)
	out := &harness.Outcome{}
	if !sc.HasRef {
		out.Infra = "no reference trace"
		return out
	}
	src := sc.Prog.Render()
	var trace []string
	var exc string
	sim := simrt.New(simrt.Config{MaxSteps: 5000000, Order: sc.Order, KeepLog: opt.KeepLog})
	sim.Spawn("main", func() {
		s, err := pyhost.NewSession(nil)
		if err != nil {
			exc = "SETUP:" + err.Error()
			return
		}
		defer s.Close()
		defer func() { trace = s.Trace }()
		exc = s.Run(src, "<history>")
	})
	res := sim.Run()
	out.Steps = res.Steps
	out.LogHash = simrt.MixStr(res.LogHash, strings.Join(trace, "\n")+exc)
	out.Capped = res.Capped
	if opt.KeepLog {
		out.Trace = append(out.Trace, trace...)
	}
	for _, p := range res.Panics {
		out.Violate("panic", "panic|"+firstLine(p.Value), "%s\n%s", p.Value, p.Stack)
	}
	if strings.HasPrefix(exc, "PANIC") {
		out.Violate("panic", "panic|"+firstLine(exc), "%s", exc)
	}
	if res.Capped {
		out.Violate("hang", "hang", "history did not finish within the step budget")
	}
	if len(out.Violations) == 0 {
		if d := pyhost.DiffTrace(trace, sc.RefTrace); d != "" {
			sig, desc := describe(sc, trace, sc.RefTrace)
			out.Violate("differs-from-python", sig, "%s [%s]", d, desc)
		} else if exc != sc.RefExc {
			out.Violate("differs-from-python", "ref|toplevel|"+exc, "escaping exception: gpython %q, reference %q", exc, sc.RefExc)
		}
	}
	// coverage
	nontrivial := false
	for i, op := range sc.Prog.Ops {
		if op.K == "use" {
			nontrivial = true
			out.Probe("consumer:" + op.Cons)
		}
		if op.K == "send" {
			out.Probe("send")
		}
		_ = i
	}
	for _, pr := range sc.Prog.Prods {
		out.Probe("producer:" + pr.Kind)
		if pr.Fail >= 0 {
			nontrivial = true
			out.Fault("producer_raises", 1)
			if pr.Fail == 0 {
				out.Probe("producer_failed_at_first_item")
			}
		}
	}
	for _, l := range sc.RefTrace {
		if strings.Contains(l, "\"raise\"") || strings.Contains(l, "\"fnraise\"") || strings.Contains(l, "\"predraise\"") {
			out.Fault("producer_raise_reached", 1)
		}
	}
	if nontrivial {
		out.Shape = src[len(src)-min(len(src), 4000):]
	}
	return out
}

func min(a, b int) int {
	if a < b {
		return a
	}
	return b
}

// describe builds the signature of a mismatch from the operation whose log
// line differs first.
func describe(sc *Scenario, got, want []string) (sig, desc string) {
	n := len(got)
	if len(want) < n {
		n = len(want)
	}
	line := ""
	for i := 0; i < n; i++ {
		if got[i] != want[i] {
			line = want[i]
			if !strings.HasPrefix(line, "\"o") {
				line = got[i]
			}
			break
		}
	}
	if line == "" {
		if len(want) > n {
			line = want[n]
		} else if len(got) > n {
			line = got[n]
		}
	}
	opi := -1
	if strings.HasPrefix(line, "\"o") {
		fmt.Sscanf(line, "\"o%d\"", &opi)
	}
	if opi < 0 || opi >= len(sc.Prog.Ops) {
		// the differing line was logged by a producer (tag int): find the op
		// that was executing: the last "oN" line before the difference
		for i := n - 1; i >= 0 && opi < 0; i-- {
			if i < len(want) && strings.HasPrefix(want[i], "\"o") {
				fmt.Sscanf(want[i], "\"o%d\"", &opi)
				opi++ // the op after the last completed one
			}
		}
		if opi < 0 {
			opi = 0
		}
		if opi >= len(sc.Prog.Ops) {
			opi = len(sc.Prog.Ops) - 1
		}
	}
	cons, prods, excs := sc.Prog.Features(opi)
	sort.Strings(excs)
	sig = "ref|cons=" + cons + "|prod=" + strings.Join(prods, ">") + "|exc=" + strings.Join(excs, ",")
	desc = fmt.Sprintf("operation %d: %s on %s, exceptions %v", opi, cons, strings.Join(prods, ">"), excs)
	return
}

func firstLine(s string) string {
	if i := strings.IndexByte(s, '\n'); i >= 0 {
		s = s[:i]
	}
	if len(s) > 100 {
		s = s[:100]
	}
	return s
}

func (Engine) Text(sci interface{}) string { return sci.(*Scenario).Prog.Render() }
