// Package scope is the C03 engine: generated scoping programs, compiled and
// run under several simulator-chosen map iteration orders, compared with one
// another (order independence) and with CPython (what Python's scoping says).
package scope

import (
	"encoding/json"
	"fmt"
	"strings"

	"github.com/go-python/gpython/py"
	"github.com/go-python/gpython/simrt"
	"github.com/go-python/gpython/zzverif/gen"
	"github.com/go-python/gpython/zzverif/harness"
	"github.com/go-python/gpython/zzverif/pyhost"
)

type Scenario struct {
	Prog     *gen.ScopeProg   `json:"prog"`
	Orders   []simrt.MapOrder `json:"orders"`
	HasRef   bool             `json:"has_ref"`
	RefTrace []string         `json:"ref_trace,omitempty"`
	RefExc   string           `json:"ref_exc,omitempty"`
}

type Engine struct{}

func init() { harness.Register(Engine{}) }

func (Engine) Name() string     { return "scope" }
func (Engine) Property() string { return "C03" }

func (Engine) Gen(seed uint64, idx int, tier string) interface{} {
	r := simrt.NewRand(simrt.Mix(seed, 0x03, uint64(idx)))
	depth := 2 + r.Intn(3)
	if tier == "thorough" && r.Chance(1, 3) {
		depth = 5
	}
	if r.Chance(1, 15) {
		depth = 6 + r.Intn(3) // deep nesting (the generator stops at 36 scopes)
	}
	sc := &Scenario{Prog: gen.GenScope(r, depth)}
	sc.Orders = []simrt.MapOrder{{Kind: simrt.OrderAsc}, {Kind: simrt.OrderDesc}}
	n := 4
	if tier == "thorough" {
		n = 8
	}
	for i := 0; i < n; i++ {
		if i%3 == 2 {
			sc.Orders = append(sc.Orders, simrt.MapOrder{Kind: simrt.OrderRotate, K: r.Uint64()})
		} else {
			sc.Orders = append(sc.Orders, simrt.MapOrder{Kind: simrt.OrderPerm, K: r.Uint64()})
		}
	}
	return sc
}

func (Engine) Decode(raw json.RawMessage) (interface{}, error) {
	var sc Scenario
	if err := json.Unmarshal(raw, &sc); err != nil {
		return nil, err
	}
	return &sc, nil
}

func (Engine) Prepare(batch []interface{}) error {
	var progs []pyhost.RefProgram
	for i, b := range batch {
		sc := b.(*Scenario)
		if sc.HasRef {
			continue
		}
		progs = append(progs, pyhost.RefProgram{ID: i, Main: sc.Prog.Render()})
	}
	if len(progs) == 0 {
		return nil
	}
	res, err := pyhost.RunReference(progs)
	if err != nil {
		return err
	}
	for i, b := range batch {
		sc := b.(*Scenario)
		if sc.HasRef {
			continue
		}
		r := res[i]
		if r == nil || r.Error != "" {
			return fmt.Errorf("reference run of scenario %d failed: %v", i, r)
		}
		sc.HasRef, sc.RefTrace, sc.RefExc = true, r.Trace, r.Exc
	}
	return nil
}

func (Engine) Reseed(sci interface{}, k uint64) interface{} {
	sc := *(sci.(*Scenario))
	sc.Orders = append([]simrt.MapOrder(nil), sc.Orders...)
	for i := range sc.Orders {
		if sc.Orders[i].Kind >= simrt.OrderRotate {
			sc.Orders[i].K = simrt.Mix(sc.Orders[i].K, k)
		}
	}
	return &sc
}

func (Engine) Shrink(sci interface{}) []interface{} {
	sc := sci.(*Scenario)
	var out []interface{}
	for _, p := range gen.ShrinkScope(sc.Prog) {
		out = append(out, &Scenario{Prog: p, Orders: sc.Orders})
	}
	if len(sc.Orders) > 2 {
		for i := range sc.Orders {
			c := &Scenario{Prog: sc.Prog, HasRef: sc.HasRef, RefTrace: sc.RefTrace, RefExc: sc.RefExc}
			c.Orders = append(append([]simrt.MapOrder(nil), sc.Orders[:i]...), sc.Orders[i+1:]...)
			out = append(out, c)
		}
	}
	return out
}

func (Engine) Describe() harness.EngineInfo {
	return harness.EngineInfo{
		Rule:        "program = seeded nesting (depth<=4, 1 in 15 programs 6-8) of module/function/class/lambda/comprehension scopes over names a,b,c,d with planned roles (local, parameter, global, nonlocal, free) and statements bind/use/del/augassign/def with defaults/class with methods/lambda/comprehension; closures are called at definition time and again after the enclosing scope finished; 1 in 6 programs carries exactly one forbidden declaration; 1 in 15 is padded with 257-266 extra module-level names/constants and as many extra locals per function (index arithmetic beyond 255). Each program is compiled and run under 6 (quick) or 10 (thorough) simulator-chosen map iteration orders (always ascending and descending). distinct = distinct program sources; non-trivial = at least one nested function or class scope",
		Real:        []string{"parser", "symtable (scope analysis)", "compile", "vm", "py object model"},
		Stubbed:     []string{"Go map iteration order in every range loop -> chosen by the simulator (asc, desc, rotation, seeded permutation per loop instance)", "reference semantics: CPython 3.11 running the same source"},
		Assumptions: []string{"CPython 3.11 is the reference for Python's scoping rules; generated programs avoid constructs whose scoping differs between 3.4 and 3.11 (__class__/super(), PEP 572)", "use or assignment of a name before its global/nonlocal declaration is treated as forbidden (SyntaxError), as the property states and CPython >= 3.6 does"},
		Fragment:    []string{"def/lambda/class/list,set,dict comprehensions/generator expressions", "global, nonlocal, del, augmented assignment, default arguments, keyword-only parameters", "try/except with built-in exception classes, string constants, tuples"},
		TimeUnit:    "VM instructions and compile-pipeline function entries (scheduler steps)",
	}
}

type one struct {
	dump  string
	trace []string
	exc   string
	panic string
	steps int64
}

func runOnce(src string, order simrt.MapOrder) one {
	var o one
	sim := simrt.New(simrt.Config{MaxSteps: 3000000, Order: order})
	sim.Spawn("main", func() {
		code, err := py.Compile(src, "<main>", py.ExecMode, 0, true)
		if err != nil {
			o.exc = "COMPILE:" + pyhost.ExcClass(err)
			return
		}
		o.dump = pyhost.DumpCode(code)
		s, err := pyhost.NewSession(nil)
		if err != nil {
			o.exc = "SETUP:" + err.Error()
			return
		}
		defer s.Close()
		_, err = s.Ctx.RunCode(code, s.Main.Globals, s.Main.Globals, nil)
		o.exc = pyhost.ExcClass(err)
		o.trace = s.Trace
	})
	res := sim.Run()
	o.steps = res.Steps
	for _, p := range res.Panics {
		o.panic = p.Value + "\n" + p.Stack
	}
	if res.Capped {
		o.panic = "step budget exceeded (hang)"
	}
	return o
}

func (Engine) Exec(sci interface{}, opt harness.ExecOpts) *harness.Outcome {
	sc := sci.(*Scenario)
	out := &harness.Outcome{}
	if !sc.HasRef {
		out.Infra = "no reference trace"
		return out
	}
	src := sc.Prog.Render()
	var first one
	panicked := false
	h := uint64(0)
	for i, ord := range sc.Orders {
		o := runOnce(src, ord)
		out.Steps += o.steps
		h = simrt.MixStr(h, o.dump+"\x00"+strings.Join(o.trace, "\n")+"\x00"+o.exc)
		if o.panic != "" {
			out.Violate("panic", "panic|"+firstLine(o.panic), "order %s: %s", ord, o.panic)
			panicked = true
			continue
		}
		if i == 0 {
			first = o
			continue
		}
		if o.dump != first.dump {
			out.Violate("order-dependent-code", "order|code", "code objects differ between map orders %s and %s:\n%s", sc.Orders[0], ord, firstDiffLine(first.dump, o.dump))
		}
		if d := pyhost.DiffTrace(o.trace, first.trace); d != "" || o.exc != first.exc {
			out.Violate("order-dependent-behaviour", "order|trace", "behaviour differs between map orders %s and %s: %s (exc %q vs %q)", ord, sc.Orders[0], d, o.exc, first.exc)
		}
	}
	out.LogHash = h
	// reference comparison (first order)
	refRejects := strings.HasPrefix(sc.RefExc, "COMPILE:")
	gRejects := strings.HasPrefix(first.exc, "COMPILE:")
	switch {
	case panicked:
	case refRejects && !gRejects:
		out.Violate("forbidden-declaration-accepted", "ref|accepts|"+negKind(sc), "CPython rejects the program at compile time (%s) but gpython compiled it (injected: %q)", sc.RefExc, sc.Prog.Neg)
	case !refRejects && gRejects:
		out.Violate("valid-program-rejected", "ref|rejects|"+first.exc, "gpython rejects at compile time (%s) a program CPython accepts", first.exc)
	case refRejects && gRejects:
		if first.exc != "COMPILE:SyntaxError" && first.exc != "COMPILE:IndentationError" {
			out.Violate("forbidden-declaration-wrong-error", "ref|rejectclass|"+first.exc, "rejected with %s, expected a SyntaxError", first.exc)
		}
		out.Probe("negative_program_rejected")
	default:
		if d := pyhost.DiffTrace(first.trace, sc.RefTrace); d != "" {
			out.Violate("resolution-differs-from-python", "ref|"+diffDescriptor(sc, first.trace, sc.RefTrace), "%s", d)
		} else if first.exc != sc.RefExc {
			out.Violate("resolution-differs-from-python", "ref|exc|"+first.exc+"|"+sc.RefExc, "escaping exception: gpython %q, reference %q", first.exc, sc.RefExc)
		}
	}
	if sc.Prog.Neg != "" {
		out.Probe("negative_program")
		out.Fault("forbidden_declaration_"+sc.Prog.Neg, 1)
	}
	if strings.Contains(src, "nonlocal ") {
		out.Probe("has_nonlocal")
	}
	if strings.Contains(src, "    def ") || strings.Contains(src, "    class ") {
		out.Shape = src
	}
	return out
}

func negKind(sc *Scenario) string {
	if sc.Prog.Neg != "" {
		return sc.Prog.Neg
	}
	return "uninjected"
}

// diffDescriptor names the statement kind behind the first differing line.
func diffDescriptor(sc *Scenario, got, want []string) string {
	n := len(got)
	if len(want) < n {
		n = len(want)
	}
	line := ""
	for i := 0; i < n; i++ {
		if got[i] != want[i] {
			line = want[i]
			break
		}
	}
	if line == "" {
		if len(got) > n {
			line = got[n]
		} else if len(want) > n {
			line = want[n]
		}
	}
	// line starts with "tNN"
	if strings.HasPrefix(line, "\"") {
		if j := strings.Index(line[1:], "\""); j > 0 {
			tag := line[1 : 1+j]
			if d, ok := sc.Prog.Tags[tag]; ok {
				return d
			}
			return tag
		}
	}
	return "?"
}

func firstLine(s string) string {
	if i := strings.IndexByte(s, '\n'); i >= 0 {
		s = s[:i]
	}
	if len(s) > 100 {
		s = s[:100]
	}
	return s
}

func firstDiffLine(a, b string) string {
	la, lb := strings.Split(a, "\n"), strings.Split(b, "\n")
	for i := 0; i < len(la) && i < len(lb); i++ {
		if la[i] != lb[i] {
			return fmt.Sprintf("line %d:\n  %s\n  %s", i, la[i], lb[i])
		}
	}
	return fmt.Sprintf("lengths %d vs %d", len(la), len(lb))
}

func (Engine) Text(sci interface{}) string { return sci.(*Scenario).Prog.Render() }
