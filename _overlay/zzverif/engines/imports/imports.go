// Package imports is the C19 engine: a generated module graph behind a
// virtual file system, imported in seeded order and form by one or two
// contexts, with missing modules / names and file-system faults injected.
package imports

import (
	"encoding/json"
	"fmt"
	"sort"
	"strings"

	"github.com/go-python/gpython/py"
	"github.com/go-python/gpython/simrt"
	"github.com/go-python/gpython/simrt/simfs"
	"github.com/go-python/gpython/zzverif/gen"
	"github.com/go-python/gpython/zzverif/harness"
	"github.com/go-python/gpython/zzverif/pyhost"
)

type Scenario struct {
	Prog     *gen.ImportProg `json:"prog"`
	Contexts int             `json:"contexts"`
	AsScript bool            `json:"as_script,omitempty"` // the main program is run as the code of a new module __main__ (py.RunCode with no module), not inside a prepared main module
	Shared   bool            `json:"shared,omitempty"`    // the contexts execute ONE code object of the main program (compiled once by the embedder)
	Order    simrt.MapOrder  `json:"order"`
	SSeed    uint64          `json:"sseed"`
	PNum     int             `json:"pnum"`
	HasRef   bool            `json:"has_ref"`
	RefTrace []string        `json:"ref_trace,omitempty"`
	RefExc   string          `json:"ref_exc,omitempty"`
	RefExc2  string          `json:"ref_exc2,omitempty"`
}

type Engine struct{}

func init() { harness.Register(Engine{}) }

// decoyContent is what a file without extension named like a module holds.
const decoyContent = "this is ( not python\n"

func (Engine) Name() string     { return "imports" }
func (Engine) Property() string { return "C19" }

func (Engine) Gen(seed uint64, idx int, tier string) interface{} {
	r := simrt.NewRand(simrt.Mix(seed, 0x19, uint64(idx)))
	gen.Scale = 1
	if tier == "thorough" && r.Chance(1, 2) {
		gen.Scale = 2
	}
	sc := &Scenario{Prog: gen.GenImport(r, true), Contexts: 1, Order: simrt.MapOrder{Kind: r.Intn(4), K: r.Uint64()}, SSeed: r.Uint64(), PNum: 1 + r.Intn(50)}
	if r.Chance(1, 4) && len(sc.Prog.Late) == 0 {
		sc.Contexts = 2 + r.Intn(2) // (files that appear at run time would be seen by both contexts: single context only)
		sc.Shared = r.Chance(1, 2)
	}
	sc.AsScript = r.Chance(1, 3)
	return sc
}

func (Engine) Decode(raw json.RawMessage) (interface{}, error) {
	var sc Scenario
	if err := json.Unmarshal(raw, &sc); err != nil {
		return nil, err
	}
	return &sc, nil
}

func hasFault(p *gen.ImportProg) bool {
	for _, m := range p.Mods {
		if m.Fault != "" {
			return true
		}
	}
	return false
}

func (Engine) Prepare(batch []interface{}) error {
	var progs []pyhost.RefProgram
	for i, b := range batch {
		sc := b.(*Scenario)
		if sc.HasRef || hasFault(sc.Prog) {
			continue
		}
		after := sc.Prog.RenderAfter()
		files, dirs := sc.Prog.Files(), []string(nil)
		for _, d := range sc.Prog.Decoys {
			if strings.HasPrefix(d, "dir:") {
				dirs = append(dirs, d[4:])
			} else {
				files[d[5:]] = decoyContent
			}
		}
		progs = append(progs, pyhost.RefProgram{ID: i, Main: sc.Prog.RenderMain(), After: &after, Files: files, Dirs: dirs, Late: sc.Prog.LateFiles(), Path: sc.Prog.Path})
	}
	if len(progs) == 0 {
		return nil
	}
	res, err := pyhost.RunReference(progs)
	if err != nil {
		return err
	}
	for i, b := range batch {
		sc := b.(*Scenario)
		if sc.HasRef || hasFault(sc.Prog) {
			continue
		}
		r := res[i]
		if r == nil || r.Error != "" {
			return fmt.Errorf("reference run of scenario %d failed: %+v", i, r)
		}
		sc.HasRef, sc.RefTrace, sc.RefExc, sc.RefExc2 = true, r.Trace, r.Exc, r.Exc2
	}
	return nil
}

func (Engine) Reseed(sci interface{}, k uint64) interface{} {
	sc := *(sci.(*Scenario))
	sc.SSeed = simrt.Mix(sc.SSeed, k)
	sc.Order = simrt.MapOrder{Kind: int(k % 4), K: k}
	return &sc
}

func (Engine) Shrink(sci interface{}) []interface{} {
	sc := sci.(*Scenario)
	var out []interface{}
	if sc.Contexts > 1 {
		c := *sc
		c.Contexts = 1
		out = append(out, &c)
	}
	for _, p := range gen.ShrinkImport(sc.Prog) {
		out = append(out, &Scenario{Prog: p, Contexts: sc.Contexts, Shared: sc.Shared, AsScript: sc.AsScript, Order: sc.Order, SSeed: sc.SSeed, PNum: sc.PNum})
	}
	return out
}

func (Engine) Describe() harness.EngineInfo {
	return harness.EngineInfo{
		Rule:        "scenario = 1-5 generated source modules in one or two sys.path directories of a virtual file system (optionally one shadowed copy), each body a straight-line list of exec-log, bindings (public, _private, optional __all__), import statements in all five forms (import m / import m as n / from m import a / from m import a as b / from m import *) of other modules (chains, diamonds, cycles), mutations of other modules and reads; the main program performs first and repeated imports in seeded order and form, identity checks, mutations, imports of Go modules, rebinding / deletion / reading of attributes of the Go module math through the module object and from-import, star imports executed with a fresh empty dict as locals; faults: ENOENT (missing module, main or nested, wrapped or escaping), missing names, and in 20% of runs EIO on stat/read, torn source or a file vanishing between stat and read; an 'after' program then uses the same context; 25% of runs use two contexts on the same file system interleaved by the scheduler. distinct = distinct (module files, main program) text; non-trivial = at least two import statements naming the same module; modules reach the running program through 'import __main__' (read its marker, write into its namespace); 1 in 3 scenarios run the main program as a script (code of a new __main__ module via py.RunCode); 1 in 4 scenarios put decoy directory entries next to a module's source file (a directory of that name without __init__.py, a file of that name without extension)",
		Real:        []string{"py.ImportModuleLevelObject / BuiltinImport", "stdlib.context.ResolveAndCompile + ModuleInit", "py.ModuleStore", "vm IMPORT_NAME / IMPORT_FROM / IMPORT_STAR", "compile"},
		Stubbed:     []string{"os.Stat/ReadFile/Open/Getwd in the resolver -> simfs (in-memory tree with per-path fault plans)", "reference semantics -> CPython 3.11 importing the same files from a private temporary directory", "goroutine interleaving of two contexts -> simulator", "Go map iteration order -> simulator"},
		Assumptions: []string{"dotted names / packages are outside the fragment", "module bodies wrap failing imports in try/except (CPython re-executes a module whose body raised; the property states nothing for that case)", "for EIO / torn / vanishing files only no-panic, exec-at-most-once and context-still-usable are judged (the property states an outcome only for missing modules and names)", "ModuleNotFoundError is folded into ImportError"},
		TimeUnit:    "scheduler steps",
	}
}

type ctxResult struct {
	trace []string
	exc   string
	exc2  string
}

func (Engine) Exec(sci interface{}, opt harness.ExecOpts) *harness.Outcome {
	sc := sci.(*Scenario)
	out := &harness.Outcome{}
	faulty := hasFault(sc.Prog)
	if !faulty && !sc.HasRef {
		out.Infra = "no reference trace"
		return out
	}
	fs := simfs.New()
	for _, d := range sc.Prog.Path {
		fs.AddDir("/simcwd/" + d)
	}
	files := sc.Prog.Files()
	for _, m := range sc.Prog.Late {
		rel := m.Dir + "/" + m.Name + ".py"
		if src, ok := files[rel]; ok { // present from the start (directory not on sys.path yet)
			fs.AddFile("/simcwd/"+rel, src)
		}
	}
	for _, m := range sc.Prog.Mods {
		rel := m.Dir + "/" + m.Name + ".py"
		n := fs.AddFile("/simcwd/"+rel, files[rel])
		switch m.Fault {
		case "eio-stat":
			n.Fault = simfs.FaultStatEIO
		case "eio-read":
			n.Fault = simfs.FaultReadEIO
		case "torn":
			n.Fault = simfs.FaultTorn
			n.TornN = len(n.Data) * 2 / 3
		case "vanish":
			n.Fault = simfs.FaultVanish
		}
	}
	for _, d := range sc.Prog.Decoys {
		if strings.HasPrefix(d, "dir:") {
			fs.AddDir("/simcwd/" + d[4:])
		} else {
			fs.AddFile("/simcwd/"+d[5:], decoyContent)
		}
	}
	simfs.Install(fs)
	defer simfs.Install(nil)
	late := sc.Prog.LateFiles()
	pyhost.FSAdd = func(rel string) {
		if src, ok := late[rel]; ok {
			fs.AddFile("/simcwd/"+rel, src)
			out.Fault("fs_file_appears_at_runtime", 1)
		}
	}
	defer func() { pyhost.FSAdd = nil }()
	var paths []string
	for _, d := range sc.Prog.Path {
		paths = append(paths, "/simcwd/"+d)
	}
	mainSrc, afterSrc := sc.Prog.RenderMain(), sc.Prog.RenderAfter()
	var sharedMain, sharedAfter *py.Code
	if sc.Shared {
		sharedMain, _ = py.Compile(mainSrc, "<main>", py.ExecMode, 0, true)
		sharedAfter, _ = py.Compile(afterSrc, "<after>", py.ExecMode, 0, true)
	}
	runProg := func(s *pyhost.Session, code *py.Code, src, name string) string {
		if code == nil {
			return s.Run(src, name)
		}
		exc := ""
		func() {
			defer func() {
				if r := recover(); r != nil {
					exc = "PANIC: " + fmt.Sprint(r)
				}
			}()
			_, err := s.Ctx.RunCode(code, s.Main.Globals, s.Main.Globals, nil)
			exc = pyhost.ExcClass(err)
		}()
		return exc
	}
	results := make([]ctxResult, sc.Contexts)
	var sched simrt.Scheduler
	if opt.UseSched {
		sched = simrt.NewReplaySched(opt.Schedule)
	} else if sc.Contexts > 1 {
		sched = &simrt.RandomSched{R: simrt.NewRand(sc.SSeed), Num: uint64(sc.PNum), Den: 1000}
	}
	sim := simrt.New(simrt.Config{MaxSteps: 20000000, Order: sc.Order, Sched: sched, KeepLog: opt.KeepLog})
	for c := 0; c < sc.Contexts; c++ {
		c := c
		sim.Spawn(fmt.Sprintf("ctx%d", c), func() {
			s, err := pyhost.NewSession(paths)
			if err != nil {
				results[c].exc = "SETUP:" + err.Error()
				return
			}
			defer s.Close()
			defer func() { results[c].trace = s.Trace }()
			if sc.AsScript {
				// the main program runs the way a script does: as the code of a new
				// module __main__ (py.RunCode / RunFile -> ModuleInit)
				func() {
					defer func() {
						if r := recover(); r != nil {
							results[c].exc = "PANIC: " + fmt.Sprint(r)
						}
					}()
					code := sharedMain
					if code == nil {
						var err error
						if code, err = py.Compile(mainSrc, "<main>", py.ExecMode, 0, true); err != nil {
							results[c].exc = "COMPILE:" + pyhost.ExcClass(err)
							return
						}
					}
					_, err := py.RunCode(s.Ctx, code, "<main>", nil)
					results[c].exc = pyhost.ExcClass(err)
					if m, e := s.Ctx.Store().GetModule("__main__"); e == nil {
						s.Main = m
					}
				}()
			} else {
				results[c].exc = runProg(s, sharedMain, mainSrc, "<main>")
			}
			s.Trace = append(s.Trace, "\"--after--\"")
			results[c].exc2 = runProg(s, sharedAfter, afterSrc, "<after>")
		})
	}
	res := sim.Run()
	out.Steps, out.Switches, out.Decisions, out.Capped = res.Steps, res.Switches, res.Decisions, res.Capped
	h := res.LogHash
	for _, r := range results {
		h = simrt.MixStr(h, strings.Join(r.trace, "\n")+r.exc+r.exc2)
	}
	out.LogHash = h
	if opt.KeepLog {
		for c, r := range results {
			for _, l := range r.trace {
				out.Trace = append(out.Trace, fmt.Sprintf("ctx%d %s", c, l))
			}
		}
	}
	for k, v := range fs.Fired {
		out.Fault("fs_"+k, int64(v))
	}
	for _, p := range res.Panics {
		out.Violate("panic", "panic|"+firstLine(p.Value), "%s\n%s", p.Value, p.Stack)
	}
	if res.Capped || res.Deadlock {
		out.Violate("hang", "hang", "did not finish (capped=%v deadlock=%v %v)", res.Capped, res.Deadlock, res.DeadlockAt)
	}
	if len(out.Violations) > 0 {
		return out
	}
	desc := describeIDs(sc.Prog)
	for c, r := range results {
		if strings.HasPrefix(r.exc, "PANIC") || strings.HasPrefix(r.exc2, "PANIC") {
			out.Violate("panic", "panic|"+firstLine(r.exc+r.exc2), "context %d: %s %s", c, r.exc, r.exc2)
			continue
		}
		// invariant: each module file's body starts at most once per context
		execs := map[string]int{}
		for _, l := range r.trace {
			if strings.HasPrefix(l, "\"exec\" ") {
				execs[l]++
				if execs[l] == 2 {
					out.Violate("module-body-ran-twice", "exec-twice", "context %d: %s logged twice", c, l)
				}
			}
		}
		if faulty {
			// context must remain usable: the after program reaches its last statement
			last := ""
			if len(r.trace) > 0 {
				last = r.trace[len(r.trace)-1]
			}
			if !strings.Contains(last, "\"code\" 2") {
				out.Violate("context-unusable-after-fault", "unusable-after-fs-fault", "context %d: after a file-system fault the follow-up program did not complete (last line %q, exc %q)", c, last, r.exc2)
			}
			continue
		}
		if d := pyhost.DiffTrace(r.trace, sc.RefTrace); d != "" {
			out.Violate("differs-from-python", "ref|"+sigOf(desc, r.trace, sc.RefTrace), "context %d: %s", c, d)
		} else if r.exc != sc.RefExc {
			out.Violate("differs-from-python", "ref|exc|"+r.exc+"|"+sc.RefExc, "context %d: main program ended with %q, reference %q", c, r.exc, sc.RefExc)
		} else if r.exc2 != sc.RefExc2 {
			out.Violate("context-unusable-after-fault", "ref|after|"+r.exc2, "context %d: follow-up program ended with %q, reference %q", c, r.exc2, sc.RefExc2)
		}
	}
	// coverage
	seen := map[string]int{}
	multi := false
	cnt := func(stmts []gen.ImportStmt) {
		for _, s := range stmts {
			if s.K == "imp" {
				out.Probe("form:" + s.Form)
				seen[s.M]++
				if seen[s.M] > 1 {
					multi = true
				}
				if strings.HasPrefix(s.M, "nosuch") {
					out.Fault("missing_module_import", 1)
				}
				if s.N == "missing_name" {
					out.Fault("missing_name_import", 1)
				}
			}
		}
	}
	cnt(sc.Prog.Main)
	for _, m := range sc.Prog.Mods {
		cnt(m.Body)
		if m.Fault != "" {
			out.Probe("fs_fault_configured:" + m.Fault)
		}
	}
	if sc.Contexts > 1 {
		out.Probe("two_contexts")
	}
	if sc.HasRef {
		for _, l := range sc.RefTrace {
			if strings.Contains(l, "\"failed\"") {
				out.Probe("import_error_observed")
				break
			}
		}
	}
	if multi {
		var sb strings.Builder
		for k, v := range files {
			sb.WriteString(k)
			sb.WriteString(v)
		}
		out.Shape = fmt.Sprintf("%x", simrt.MixStr(simrt.MixStr(0, sb.String()), mainSrc))
	}
	return out
}

func describeIDs(p *gen.ImportProg) map[int]string {
	d := map[int]string{}
	add := func(where string, stmts []gen.ImportStmt) {
		for _, s := range stmts {
			x := where + ":" + s.K
			if s.K == "imp" {
				x += ":" + s.Form
				if strings.HasPrefix(s.M, "nosuch") {
					x += ":missing-module"
				}
				if s.N == "missing_name" {
					x += ":missing-name"
				}
			}
			d[s.ID] = x
		}
	}
	add("main", p.Main)
	add("after", p.After)
	for _, m := range p.Mods {
		add("module", m.Body)
	}
	return d
}

func sigOf(desc map[int]string, got, want []string) string {
	n := len(got)
	if len(want) < n {
		n = len(want)
	}
	line := ""
	for i := 0; i < n; i++ {
		if got[i] != want[i] {
			line = want[i]
			break
		}
	}
	if line == "" {
		if len(want) > n {
			line = want[n]
		} else if len(got) > n {
			line = got[n]
		}
	}
	// "where" ID ...
	f := strings.Fields(line)
	if len(f) >= 2 {
		var id int
		if _, err := fmt.Sscanf(f[1], "%d", &id); err == nil {
			if d, ok := desc[id]; ok {
				return d
			}
		}
		return strings.Trim(f[0], "\"")
	}
	return "?"
}

func firstLine(s string) string {
	if i := strings.IndexByte(s, '\n'); i >= 0 {
		s = s[:i]
	}
	if len(s) > 100 {
		s = s[:100]
	}
	return s
}

func (Engine) Text(sci interface{}) string {
	sc := sci.(*Scenario)
	var b strings.Builder
	files := sc.Prog.Files()
	var names []string
	for k := range files {
		names = append(names, k)
	}
	sort.Strings(names)
	for _, k := range names {
		b.WriteString("# ---- file " + k + "\n" + files[k])
	}
	b.WriteString("# ---- main program\n" + sc.Prog.RenderMain() + "# ---- follow-up program\n" + sc.Prog.RenderAfter())
	return b.String()
}
