// Package lifecycle is the C09 engine: Close/Done of one context against
// concurrent execution requests, every interleaving decided by the simulator.
package lifecycle

import (
	"encoding/json"
	"fmt"
	"sort"
	"strconv"
	"strings"

	"github.com/go-python/gpython/py"
	"github.com/go-python/gpython/simrt"
	"github.com/go-python/gpython/simrt/simfs"
	_ "github.com/go-python/gpython/stdlib"
	"github.com/go-python/gpython/zzverif/harness"
)

type Op struct {
	Kind   string `json:"k"`           // run | modinit | modsrc | regmod | resolve | runfile | close | done | pause
	ID     int    `json:"id"`          // request id
	Hold   int    `json:"hold"`        // extra yields inside the body
	Nested string `json:"nest"`        // "" | cb:<n> | src:<name> | exec | raise | badsrc
	Path   string `json:"p,omitempty"` // resolve/runfile path, regmod module number
	After  bool   `json:"after"`       // start only after some Close has returned
}

type TaskSpec struct {
	Ops []Op `json:"ops"`
}

type Scenario struct {
	Tasks    []TaskSpec     `json:"tasks"`
	LateDone bool           `json:"late_done,omitempty"` // Done() is first called by a waiter task, at a scheduler-chosen time
	Preload  []int          `json:"preload"`             // callback modules imported before the run
	FSFault  string         `json:"fsfault,omitempty"`   // "<file>:<kind>": I/O fault on a source file behind the resolver (eio-stat, eio-read, torn, vanish, stat-once)
	CBAct    []int          `json:"cbact,omitempty"`     // per callback module: what its close callback does (0 record, 1 stay in flight for a few steps, 2 RunCode on its own context, 3 py.Import on its own context, 4 call a Python function of the context that imports)
	Policy   string         `json:"policy"`              // random | pct | quantum | serial
	PNum     int            `json:"pnum"`
	Depth    int            `json:"depth"`
	SSeed    uint64         `json:"sseed"`
	Order    simrt.MapOrder `json:"order"`
}

const nCB = 3

type Engine struct{}

func init() {
	harness.Register(Engine{})
	for i := 0; i < nCB; i++ {
		i := i
		name := fmt.Sprintf("simcb%d", i)
		py.RegisterModule(&py.ModuleImpl{
			Info:    py.ModuleInfo{Name: name},
			Globals: py.StringDict{"val": py.Int(i)},
			OnContextClosed: func(m *py.Module) {
				if cur != nil {
					cur.ev("cb", i, "")
					cur.callbackAct(i, m)
				}
			},
		})
	}
	py.RegisterModule(&py.ModuleImpl{
		Info: py.ModuleInfo{Name: "simhost"},
		Methods: []*py.Method{
			py.MustNewMethod("mark", hostMark, 0, ""),
			py.MustNewMethod("hold", hostHold, 0, ""),
		},
	})
}

func (Engine) Name() string     { return "lifecycle" }
func (Engine) Property() string { return "C09" }

// ---------------------------------------------------------------- recorder

type event struct {
	Seq  int64
	Task int
	Kind string
	ID   int
	Data string
}

type run struct {
	ctx        py.Context
	done       <-chan struct{}
	events     []event
	doneSeen   bool
	closeRet   int // number of Close calls that have returned
	closeFirst int64
	cbAct      []int
	cbCode     *py.Code
	cbGlobals  py.StringDict
	cbFn       py.Object
}

var cur *run

// callbackAct: what the embedder's close callback of simcb<i> does besides
// being recorded.  A callback that re-enters its own (closing) context must get
// an ordinary error back: no body may run, nothing may panic or block for ever.
func (r *run) callbackAct(i int, m *py.Module) {
	if i >= len(r.cbAct) || r.cbAct[i] == 0 {
		return
	}
	act := r.cbAct[i]
	if act == 1 {
		for k := 0; k < 4; k++ {
			simrt.Yield("cb.hold")
		}
		return
	}
	var err error
	panicked := ""
	func() {
		defer func() {
			if p := recover(); p != nil {
				panicked = fmt.Sprint(p)
			}
		}()
		switch act {
		case 2:
			_, err = m.Context.RunCode(r.cbCode, r.cbGlobals, r.cbGlobals, nil)
		case 3:
			if _, e := m.Context.Store().GetModule("srcb"); e == nil {
				// already loaded: importing it again executes nothing
				err = fmt.Errorf("not a request")
				break
			}
			err = py.Import(m.Context, "srcb")
		default:
			_, err = py.Call(r.cbFn, nil, nil)
		}
	}()
	switch {
	case panicked != "":
		r.ev("cbreq.panic", i, panicked)
	case err == nil:
		r.ev("cbreq.ok", i, fmt.Sprint(act))
	default:
		r.ev("cbreq.err", i, fmt.Sprint(act))
	}
}

func (r *run) observe() {
	if r.done == nil {
		return
	}
	if !r.doneSeen && simrt.ChanClosed(r.done) {
		r.doneSeen = true
		seq := simrt.Log("done.closed", "")
		r.events = append(r.events, event{Seq: seq, Task: simrt.CurrentID(), Kind: "done.closed"})
	}
}

func (r *run) ev(kind string, id int, data string) int64 {
	r.observe()
	seq := simrt.Log(kind, fmt.Sprintf("%d %s", id, data))
	r.events = append(r.events, event{Seq: seq, Task: simrt.CurrentID(), Kind: kind, ID: id, Data: data})
	return seq
}

func hostMark(self py.Object, args py.Tuple) (py.Object, error) {
	if cur == nil || len(args) != 2 {
		return py.None, nil
	}
	kind, _ := args[0].(py.String)
	id, _ := args[1].(py.Int)
	if kind == "s" {
		cur.ev("body.start", int(id), "")
	} else {
		cur.ev("body.end", int(id), "")
	}
	return py.None, nil
}

func hostHold(self py.Object, args py.Tuple) (py.Object, error) {
	if len(args) == 1 {
		if k, ok := args[0].(py.Int); ok {
			for i := 0; i < int(k); i++ {
				simrt.Yield("hold")
			}
		}
	}
	return py.None, nil
}

// ---------------------------------------------------------------- generation

var srcModules = map[string]string{
	"/simcwd/lib/srca.py": "import simhost\nva = 1\n",
	"/simcwd/lib/srcb.py": "import srca\nvb = srca.va + 1\n",
	"/simcwd/lib/bad.py":  "def (:\n",
}

func (Engine) Gen(seed uint64, idx int, tier string) interface{} {
	r := simrt.NewRand(simrt.Mix(seed, 0x09, uint64(idx)))
	sc := &Scenario{SSeed: r.Uint64()}
	nt := 2 + r.Intn(3)
	if r.Chance(1, 10) {
		nt = 1
	}
	big := (tier == "thorough" && r.Chance(1, 3)) || r.Chance(1, 15)
	if big {
		nt = 4 + r.Intn(3)
	}
	id := 0
	closes := 0
	kinds := []string{"run", "run", "run", "modinit", "modsrc", "regmod", "resolve", "runfile", "close", "close", "modsrc-bad", "modbuf-bad", "modbuf-notcode", "call", "call", "goimport"}
	inners := []string{"exec-code", "exec-code", "eval-code", "exec-src", "eval-src", "import:simcb0", "import:simcb1", "import:simcb2", "import:srca", "import:srcb", "import:nosuch", "dunder-import:simcb1"}
	nests := []string{"", "", "cb:0", "cb:1", "cb:2", "src:srca", "src:srcb", "exec", "raise", "badsrc", "src:nosuch", "panicimport", "deepexec"}
	for t := 0; t < nt; t++ {
		var ts TaskSpec
		no := 1 + r.Intn(3)
		if big {
			no = 2 + r.Intn(5)
		}
		for i := 0; i < no; i++ {
			op := Op{Kind: kinds[r.Intn(len(kinds))], ID: id}
			id++
			switch op.Kind {
			case "run", "modinit", "modsrc":
				op.Hold = r.Intn(6)
				op.Nested = nests[r.Intn(len(nests))]
			case "regmod":
				op.Path = fmt.Sprint(r.Intn(nCB))
			case "call":
				op.Hold = r.Intn(6)
				op.Nested = inners[r.Intn(len(inners))]
			case "goimport":
				op.Path = []string{"simcb0", "simcb1", "simcb2", "srca", "srcb", "nosuch", "bad"}[r.Intn(7)]
			case "resolve", "runfile":
				op.Path = []string{"srca", "srcb", "nosuch", "bad"}[r.Intn(4)]
			case "close":
				closes++
			}
			if op.Kind != "close" && r.Chance(1, 6) {
				op.After = true
			}
			ts.Ops = append(ts.Ops, op)
		}
		sc.Tasks = append(sc.Tasks, ts)
	}
	if closes == 0 || r.Chance(1, 3) {
		sc.Tasks = append(sc.Tasks, TaskSpec{Ops: []Op{{Kind: "close", ID: id}}})
		id++
		closes++
	}
	if r.Chance(1, 3) {
		sc.Tasks = append(sc.Tasks, TaskSpec{Ops: []Op{{Kind: "done", ID: id}}})
		id++
		sc.LateDone = r.Chance(1, 2)
	}
	for i := 0; i < nCB; i++ {
		if r.Chance(1, 2) {
			sc.Preload = append(sc.Preload, i)
		}
	}
	if r.Chance(1, 4) {
		sc.FSFault = []string{"srca", "srcb", "bad"}[r.Intn(3)] + ":" + []string{"eio-stat", "eio-read", "torn", "vanish", "stat-once"}[r.Intn(5)]
	}
	if r.Chance(1, 3) {
		sc.CBAct = make([]int, nCB)
		for i := range sc.CBAct {
			if r.Chance(1, 2) {
				sc.CBAct[i] = 1 + r.Intn(4)
			}
		}
	}
	switch r.Intn(10) {
	case 0, 1, 2:
		sc.Policy, sc.PNum = "random", 1+r.Intn(30)
	case 3, 4, 5, 6:
		sc.Policy, sc.Depth = "pct", 1+r.Intn(4)
	case 7, 8:
		sc.Policy, sc.PNum = "quantum", 1+r.Intn(40)
	default:
		sc.Policy = "serial"
	}
	sc.Order = simrt.MapOrder{Kind: r.Intn(4), K: r.Uint64()}
	if !valid(sc) {
		sc.Tasks = append(sc.Tasks, TaskSpec{Ops: []Op{{Kind: "close", ID: id}}})
	}
	return sc
}

// valid rejects scenarios that deadlock by construction: an op that waits for
// a Close to return (After, done) needs some task that reaches a Close without
// waiting itself.
func valid(sc *Scenario) bool {
	waits, free := false, false
	for _, t := range sc.Tasks {
		blocked := false
		for _, op := range t.Ops {
			if op.After || op.Kind == "done" {
				waits = true
				blocked = true
			}
			if op.Kind == "close" && !blocked {
				free = true
			}
		}
	}
	return !waits || free
}

func (Engine) Decode(raw json.RawMessage) (interface{}, error) {
	var sc Scenario
	if err := json.Unmarshal(raw, &sc); err != nil {
		return nil, err
	}
	return &sc, nil
}

func (Engine) Prepare(batch []interface{}) error { return nil }

func (Engine) Reseed(sci interface{}, k uint64) interface{} {
	sc := *(sci.(*Scenario))
	sc.SSeed = simrt.Mix(sc.SSeed, k)
	if k%3 == 1 {
		sc.Policy, sc.Depth = "pct", 1+int(k%4)
	} else if k%3 == 2 {
		sc.Policy, sc.PNum = "random", 1+int(k%29)
	}
	return &sc
}

func (Engine) Shrink(sci interface{}) []interface{} {
	sc := sci.(*Scenario)
	var out []interface{}
	clone := func() *Scenario {
		b, _ := json.Marshal(sc)
		var c Scenario
		json.Unmarshal(b, &c)
		return &c
	}
	// drop a task
	for t := range sc.Tasks {
		if len(sc.Tasks) <= 1 {
			break
		}
		c := clone()
		c.Tasks = append(c.Tasks[:t], c.Tasks[t+1:]...)
		out = append(out, c)
	}
	// drop an op
	for t := range sc.Tasks {
		for i := range sc.Tasks[t].Ops {
			if len(sc.Tasks[t].Ops) <= 1 {
				continue
			}
			c := clone()
			c.Tasks[t].Ops = append(c.Tasks[t].Ops[:i], c.Tasks[t].Ops[i+1:]...)
			out = append(out, c)
		}
	}
	// simplify ops
	for t := range sc.Tasks {
		for i, op := range sc.Tasks[t].Ops {
			if op.Nested != "" {
				c := clone()
				c.Tasks[t].Ops[i].Nested = ""
				out = append(out, c)
			}
			if op.Hold > 0 {
				c := clone()
				c.Tasks[t].Ops[i].Hold = 0
				out = append(out, c)
			}
			if op.Kind != "run" && op.Kind != "close" && op.Kind != "done" {
				c := clone()
				c.Tasks[t].Ops[i].Kind = "run"
				c.Tasks[t].Ops[i].Path = ""
				out = append(out, c)
			}
			if op.After {
				c := clone()
				c.Tasks[t].Ops[i].After = false
				out = append(out, c)
			}
		}
	}
	if len(sc.Preload) > 0 {
		c := clone()
		c.Preload = c.Preload[1:]
		out = append(out, c)
	}
	if sc.Order.Kind != 0 {
		c := clone()
		c.Order = simrt.MapOrder{}
		out = append(out, c)
	}
	var ok []interface{}
	for _, c := range out {
		if valid(c.(*Scenario)) {
			ok = append(ok, c)
		}
	}
	return ok
}

func (Engine) Describe() harness.EngineInfo {
	return harness.EngineInfo{
		Rule: "scenario = 1-5 tasks on ONE context, each a script of RunCode / ModuleInit (Code, CodeSrc, registered Go module with close callback) / ResolveAndCompile / RunFile / py.Import issued from Go / py.Call of a pre-defined Python function that imports, exec()s or eval()s source or a precompiled code object or calls __import__ / Close / Done-wait, bodies with mark_start, hold(k), nested import|exec|raise, mark_end; in 1 of 4 scenarios one source file behind the resolver fails (EIO on stat or read, torn content, vanishing between stat and read, first stat failing); in 1 of 3 scenarios the modules' close callbacks stay in flight for a few steps or re-enter their own closing context (RunCode / py.Import / py.Call of a function that exec()s), which must be refused with an ordinary error; scheduler policy (random p, PCT d<=4, quantum, serial) and map order drawn per run; preemption before every statement of package stdlib, every simsync operation, every VM instruction. distinct = distinct sequences of (task, harness event) i.e. distinct interleavings at event granularity; non-trivial = at least one Close call overlaps (invoke..return) an execution request or a request starts after a Close returned",
		Real: []string{"stdlib.context (pushBusy/popBusy/Close/Done/RunCode/ModuleInit/ResolveAndCompile)", "py.ModuleStore", "py.Import machinery", "parser/symtable/compile", "vm"},
		Stubbed: []string{"sync.{Once,WaitGroup,Mutex,RWMutex,Cond} -> simsync (same semantics, blocking visible to the scheduler)",
			"sync/atomic -> simatomic", "close/recv/send on channels -> simrt.Chan*", "os.Stat/ReadFile/Open/Getwd in the import resolver -> simfs (in-memory tree)", "Go map iteration order -> seeded"},
		Assumptions: []string{"Close is never called from inside an execution of the same context (self-wait); the property's 'any goroutine' is read as any other goroutine",
			"requests that overlap a Close may either run or be rejected; only requests invoked after a Close returned must fail", "a direct py.Call of a Python function is not itself an execution request (the unchanged tree does not gate it); what the function does through import / exec / eval is, and importing a module that is already loaded executes nothing",
			"the Go memory model's non-sequentially-consistent behaviours of racy code are not explored: the simulator interleaves at statement/sync-operation granularity under sequential consistency"},
		TimeUnit: "scheduler steps (preemption points passed)",
	}
}

// ---------------------------------------------------------------- execution

func bodySrc(op Op) string {
	var b strings.Builder
	fmt.Fprintf(&b, "import simhost\nsimhost.mark('s', %d)\ntry:\n    simhost.hold(%d)\n", op.ID, op.Hold)
	switch {
	case op.Nested == "":
		b.WriteString("    x = 1\n")
	case strings.HasPrefix(op.Nested, "cb:"):
		fmt.Fprintf(&b, "    import simcb%s\n", op.Nested[3:])
	case strings.HasPrefix(op.Nested, "src:"):
		fmt.Fprintf(&b, "    import %s\n", op.Nested[4:])
	case op.Nested == "exec":
		b.WriteString("    exec('y = 2')\n")
	case op.Nested == "deepexec":
		// executions nested far deeper than any small bound on the in-flight count
		fmt.Fprintf(&b, "    def _deep(n):\n        if n > 0:\n            exec(\"_deep(\" + str(n - 1) + \")\")\n    try:\n        _deep(%d)\n    except Exception:\n        pass\n", []int{3, 40, 270, 300}[op.ID%4])
	case op.Nested == "raise":
		b.WriteString("    raise ValueError('boom')\n")
	case op.Nested == "badsrc":
		b.WriteString("    import bad\n")
	case op.Nested == "panicimport":
		// sys.path rebound to a tuple makes the resolver's type assertion panic
		// (a Go panic that escapes to the embedder: outside C09, tolerated here);
		// what C09 does require is that the context can still be closed afterwards
		b.WriteString("    import sys\n    sys.path = (\"/simcwd/lib\",)\n    import nosuchpanic\n")
	}
	fmt.Fprintf(&b, "finally:\n    simhost.mark('e', %d)\n", op.ID)
	return b.String()
}

// importTarget names the module a goimport / call import:* request loads.
func importTarget(op Op) string {
	switch {
	case op.Kind == "goimport":
		return op.Path
	case op.Kind == "call" && strings.HasPrefix(op.Nested, "import:"):
		return op.Nested[len("import:"):]
	case op.Kind == "call" && strings.HasPrefix(op.Nested, "dunder-import:"):
		return op.Nested[len("dunder-import:"):]
	}
	return ""
}

// callDef is the set-up source defining f_<id> for a "call" request.
func callDef(op Op) string {
	inner := Op{ID: op.ID, Hold: op.Hold}
	body := bodySrc(inner)
	expr := fmt.Sprintf("simhost.mark('s', %d) or simhost.hold(%d) or simhost.mark('e', %d)", op.ID, op.Hold, op.ID)
	var b strings.Builder
	b.WriteString("import simhost\n")
	switch {
	case op.Nested == "exec-code":
		fmt.Fprintf(&b, "c_%d = compile(%s, '<inner%d>', 'exec')\ndef f_%d():\n    exec(c_%d)\n", op.ID, strconv.Quote(body), op.ID, op.ID, op.ID)
	case op.Nested == "eval-code":
		fmt.Fprintf(&b, "c_%d = compile(%s, '<inner%d>', 'eval')\ndef f_%d():\n    return eval(c_%d)\n", op.ID, strconv.Quote(expr), op.ID, op.ID, op.ID)
	case op.Nested == "exec-src":
		fmt.Fprintf(&b, "def f_%d():\n    exec(%s)\n", op.ID, strconv.Quote(body))
	case op.Nested == "eval-src":
		fmt.Fprintf(&b, "def f_%d():\n    return eval(%s)\n", op.ID, strconv.Quote(expr))
	case strings.HasPrefix(op.Nested, "import:"):
		fmt.Fprintf(&b, "def f_%d():\n    import %s\n", op.ID, op.Nested[len("import:"):])
	case strings.HasPrefix(op.Nested, "dunder-import:"):
		fmt.Fprintf(&b, "def f_%d():\n    return __import__(%q)\n", op.ID, op.Nested[len("dunder-import:"):])
	default:
		fmt.Fprintf(&b, "def f_%d():\n    pass\n", op.ID)
	}
	return b.String()
}

func mustCompile(src, name string) *py.Code {
	c, err := py.Compile(src, name, py.ExecMode, 0, true)
	if err != nil {
		panic("lifecycle set-up source does not compile: " + pyErr(err) + "\n" + src)
	}
	return c
}

func pyErr(err error) string {
	if e, ok := err.(*py.ExceptionInfo); ok {
		return fmt.Sprint(e.Type.Name, ": ", e.Value)
	}
	return err.Error()
}

func mkSched(sc *Scenario, nTasks int) simrt.Scheduler {
	r := simrt.NewRand(sc.SSeed)
	switch sc.Policy {
	case "random":
		return &simrt.RandomSched{R: r, Num: uint64(sc.PNum), Den: 100}
	case "pct":
		return simrt.NewPCT(r, sc.Depth, 400)
	case "quantum":
		return &simrt.QuantumSched{R: r, Min: 1, Max: sc.PNum}
	}
	return simrt.DefaultSched{}
}

func (e Engine) Exec(sci interface{}, opt harness.ExecOpts) *harness.Outcome {
	sc := sci.(*Scenario)
	out := &harness.Outcome{}

	// set-up outside the simulation: file system, context, preloaded modules
	fs := simfs.New()
	for p, src := range srcModules {
		n := fs.AddFile(p, src)
		if i := strings.IndexByte(sc.FSFault, ':'); i > 0 && p == "/simcwd/lib/"+sc.FSFault[:i]+".py" {
			switch sc.FSFault[i+1:] {
			case "eio-stat":
				n.Fault = simfs.FaultStatEIO
			case "eio-read":
				n.Fault = simfs.FaultReadEIO
			case "torn":
				n.Fault, n.TornN = simfs.FaultTorn, len(src)/2
			case "vanish":
				n.Fault = simfs.FaultVanish
			case "stat-once":
				n.Fault = simfs.FaultStatOnce
			}
		}
	}
	simfs.Install(fs)
	defer simfs.Install(nil)
	defer func() { simfs.OnOp = nil }()
	ctx := py.NewContext(py.ContextOpts{SysArgs: []string{"sim"}, SysPaths: []string{"/simcwd/lib"}})
	r := &run{ctx: ctx}
	if !sc.LateDone {
		r.done = ctx.Done()
	}
	cur = r
	defer func() { cur = nil }()
	if err := py.Import(ctx, "simhost"); err != nil {
		out.Infra = "setup: import simhost: " + err.Error()
		return out
	}
	preloaded := map[int]bool{}
	for _, i := range sc.Preload {
		if err := py.Import(ctx, fmt.Sprintf("simcb%d", i)); err != nil {
			out.Infra = "setup: import simcb: " + err.Error()
			return out
		}
		preloaded[i] = true
	}
	codes := map[int]*py.Code{}
	srcs := map[int]string{}
	for _, t := range sc.Tasks {
		for _, op := range t.Ops {
			switch op.Kind {
			case "run", "modinit", "modsrc":
				src := bodySrc(op)
				srcs[op.ID] = src
				c, err := py.Compile(src, fmt.Sprintf("<req%d>", op.ID), py.ExecMode, 0, true)
				if err != nil {
					out.Infra = "setup: compile body: " + err.Error()
					return out
				}
				codes[op.ID] = c
			}
		}
	}
	mainMod, err := ctx.Store().NewModule(ctx, &py.ModuleImpl{Info: py.ModuleInfo{Name: "__main__"}})
	if err != nil {
		out.Infra = "setup: main module: " + err.Error()
		return out
	}
	// "call" requests: a Python function defined before the run and invoked
	// directly from Go (py.Call) - the call itself is not an execution request,
	// but what the function does (exec/eval of a code object or of source,
	// import of a module not loaded yet) is, and must be admitted or refused by
	// the context exactly like a request made through the Context methods
	fns := map[int]py.Object{}
	for _, t := range sc.Tasks {
		for _, op := range t.Ops {
			if op.Kind != "call" {
				continue
			}
			def := callDef(op)
			if _, err := ctx.RunCode(mustCompile(def, fmt.Sprintf("<def%d>", op.ID)), mainMod.Globals, mainMod.Globals, nil); err != nil {
				out.Infra = "setup: define call target: " + pyErr(err) + "\n" + def
				return out
			}
			fns[op.ID] = mainMod.Globals[fmt.Sprintf("f_%d", op.ID)]
			if fns[op.ID] == nil {
				out.Infra = "setup: call target missing"
				return out
			}
		}
	}

	// what the close callbacks use when they re-enter the context
	r.cbAct = sc.CBAct
	if len(sc.CBAct) > 0 {
		r.cbCode = mustCompile("import simhost\nsimhost.mark('s', 9000)\nsimhost.mark('e', 9000)\n", "<cbreq>")
		r.cbGlobals = mainMod.Globals
		if _, err := ctx.RunCode(mustCompile("def cb_fn():\n    exec(\"import simhost\\nsimhost.mark('s', 9001)\\nsimhost.mark('e', 9001)\\n\")\n", "<cbdef>"), mainMod.Globals, mainMod.Globals, nil); err != nil {
			out.Infra = "setup: define callback function: " + pyErr(err)
			return out
		}
		r.cbFn = mainMod.Globals["cb_fn"]
	}

	// every access to the file system behind the resolver is work done on
	// behalf of an admitted request: it must not happen after Close returned
	simfs.OnOp = func(op, name string) {
		if simrt.Active() {
			r.ev("fs", 0, op)
		}
	}
	var sched simrt.Scheduler
	if opt.UseSched {
		sched = simrt.NewReplaySched(opt.Schedule)
	} else {
		sched = mkSched(sc, len(sc.Tasks))
	}
	sim := simrt.New(simrt.Config{MaxSteps: 5000000, Sched: sched, Order: sc.Order, KeepLog: opt.KeepLog,
		OnStep: func(*simrt.Sim) { r.observe() }})

	type reqResult struct {
		op       Op
		loaded   bool // goimport / call import:* : the module was already loaded when the request was made
		invoke   int64
		ret      int64
		err      error
		returned bool
		panicked string
	}
	results := map[int]*reqResult{}
	for ti, t := range sc.Tasks {
		t := t
		sim.Spawn(fmt.Sprintf("task%d", ti), func() {
			for _, op := range t.Ops {
				if op.After {
					simrt.Block("after-close", func() bool { return r.closeRet > 0 })
				}
				switch op.Kind {
				case "close":
					r.ev("close.invoke", op.ID, "")
					err := ctx.Close()
					r.closeRet++
					d := ""
					if err != nil {
						d = "err"
					}
					r.ev("close.return", op.ID, d)
				case "done":
					r.ev("done.wait", op.ID, "")
					ch := ctx.Done()
					if r.done == nil {
						r.done = ch
					}
					simrt.ChanRecv(ch)
					r.ev("done.woke", op.ID, "")
				default:
					rr := &reqResult{op: op}
					results[op.ID] = rr
					if name := importTarget(op); name != "" {
						_, e := ctx.Store().GetModule(name)
						rr.loaded = e == nil
					}
					rr.invoke = r.ev("req.invoke", op.ID, op.Kind)
					var err error
					func() {
						// the embedder recovers a panic of a request and carries on
						defer func() {
							if p := recover(); p != nil {
								rr.panicked = fmt.Sprint(p)
								err = fmt.Errorf("panic: %v", p)
							}
						}()
						switch op.Kind {
						case "run":
							_, err = ctx.RunCode(codes[op.ID], mainMod.Globals, mainMod.Globals, nil)
						case "modinit":
							_, err = ctx.ModuleInit(&py.ModuleImpl{Info: py.ModuleInfo{Name: fmt.Sprintf("mi%d", op.ID)}, Code: codes[op.ID]})
						case "modsrc":
							_, err = ctx.ModuleInit(&py.ModuleImpl{Info: py.ModuleInfo{Name: fmt.Sprintf("ms%d", op.ID)}, CodeSrc: srcs[op.ID]})
						case "modsrc-bad":
							_, err = ctx.ModuleInit(&py.ModuleImpl{Info: py.ModuleInfo{Name: fmt.Sprintf("mb%d", op.ID)}, CodeSrc: "def (:\n"})
						case "modbuf-bad":
							_, err = ctx.ModuleInit(&py.ModuleImpl{Info: py.ModuleInfo{Name: fmt.Sprintf("mb%d", op.ID)}, CodeBuf: []byte{0xff, 0x00, 0x01}})
						case "modbuf-notcode":
							_, err = ctx.ModuleInit(&py.ModuleImpl{Info: py.ModuleInfo{Name: fmt.Sprintf("mb%d", op.ID)}, CodeBuf: []byte{'N'}})
						case "regmod":
							_, err = ctx.ModuleInit(py.GetModuleImpl("simcb" + op.Path))
						case "resolve":
							_, err = ctx.ResolveAndCompile(op.Path, py.CompileOpts{UseSysPaths: true})
						case "runfile":
							_, err = py.RunFile(ctx, op.Path, py.CompileOpts{UseSysPaths: true}, fmt.Sprintf("rf%d", op.ID))
						case "goimport":
							err = py.Import(ctx, op.Path)
						case "call":
							_, err = py.Call(fns[op.ID], nil, nil)
						}
					}()
					rr.err = err
					rr.returned = true
					d := "ok"
					if err != nil {
						d = "err"
					}
					rr.ret = r.ev("req.return", op.ID, d)
				}
			}
		})
	}
	res := sim.Run()
	out.Decisions = res.Decisions
	out.LogHash = res.LogHash
	out.Steps = res.Steps
	out.Switches = res.Switches
	out.Capped = res.Capped
	out.Fault("fs_enoent", int64(fs.Fired["enoent"]))
	for _, k := range []string{"stat_eio", "read_eio", "torn", "vanish"} {
		if fs.Fired[k] > 0 {
			out.Fault("fs_"+k, int64(fs.Fired[k]))
		}
	}
	if opt.KeepLog {
		for _, e := range res.Events {
			out.Trace = append(out.Trace, e.String())
		}
	}

	// ------------------------------------------------------------ oracle
	for _, p := range res.Panics {
		out.Violate("I1-panic", "panic|"+panicSig(p.Value), "task %s panicked at step %d: %s\n%s", p.Name, p.Step, p.Value, p.Stack)
	}
	if res.Deadlock {
		out.Violate("I2-deadlock", "deadlock", "deadlock: %s", strings.Join(res.DeadlockAt, "; "))
	}
	if res.Capped {
		out.Violate("I2-no-quiescence", "capped", "run did not quiesce within 5000000 steps")
	}
	hasPanicImport := false
	for _, t := range sc.Tasks {
		for _, op := range t.Ops {
			if op.Nested == "panicimport" {
				hasPanicImport = true
			}
		}
	}
	for id, rr := range results {
		if rr.panicked == "" {
			continue
		}
		if hasPanicImport && strings.Contains(rr.panicked, "is py.Tuple, not *py.List") {
			out.Probe("recovered_resolver_panic")
			continue // the tolerated out-of-scope panic (sys.path is not a list)
		}
		out.Violate("I1-panic", "panic|"+panicSig(rr.panicked), "request %d (%s) panicked: %s", id, rr.op.Kind, rr.panicked)
	}
	inflight := map[int]bool{}
	firstCloseRet, firstCB, doneAt := int64(0), int64(0), int64(0)
	cbCount := map[int]int{}
	closeInvoked := false
	type span struct{ a, b int64 }
	var closeSpans, reqSpans []span
	closeOpen := map[int]int64{}
	for _, ev := range r.events {
		switch ev.Kind {
		case "body.start":
			if rr := results[ev.ID]; rr != nil && rr.panicked != "" {
				// a request that ends in a (tolerated) Go panic has no body.end
				// marker: the moment its frames were unwound is not observable
				// to the harness, so it is not tracked as executing
				break
			}
			inflight[ev.ID] = true
			if firstCloseRet > 0 {
				out.Violate("I3-body-after-close-returned", "body-after-close", "body of request %d started (seq %d) after Close returned (seq %d)", ev.ID, ev.Seq, firstCloseRet)
			} else if firstCB > 0 {
				out.Violate("I6-admitted-after-callbacks", "body-after-callback", "body of request %d started (seq %d) after close callbacks began (seq %d)", ev.ID, ev.Seq, firstCB)
			}
			if doneAt > 0 {
				out.Violate("I4-body-after-done", "body-after-done", "body of request %d started (seq %d) after Done was signalled (seq %d)", ev.ID, ev.Seq, doneAt)
			}
		case "body.end":
			delete(inflight, ev.ID)
			if firstCloseRet > 0 {
				out.Violate("I3-body-after-close-returned", "body-after-close", "body of request %d still running (seq %d) after Close returned (seq %d)", ev.ID, ev.Seq, firstCloseRet)
			}
		case "fs":
			if firstCloseRet > 0 {
				out.Violate("I3-work-after-close-returned", "fs-after-close", "the resolver accessed the file system (seq %d, %s) after Close returned (seq %d): a request was still executing or was admitted afterwards", ev.Seq, ev.Data, firstCloseRet)
			} else if firstCB > 0 {
				out.Violate("I6-admitted-after-callbacks", "fs-after-callback", "the resolver accessed the file system (seq %d) after the close callbacks began (seq %d)", ev.Seq, firstCB)
			}
		case "req.return":
			// a request that has returned (normally, with an error, or through a
			// panic the embedder recovered) is no longer executing
			delete(inflight, ev.ID)
		case "close.invoke":
			closeInvoked = true
			closeOpen[ev.ID] = ev.Seq
		case "close.return":
			closeSpans = append(closeSpans, span{closeOpen[ev.ID], ev.Seq})
			if firstCloseRet == 0 {
				firstCloseRet = ev.Seq
			}
			if len(inflight) > 0 {
				out.Violate("I3-close-returned-while-running", "close-while-running", "Close returned (seq %d) while requests %v were executing", ev.Seq, keys(inflight))
			}
			for i := range preloaded {
				if cbCount[i] == 0 {
					out.Violate("I6-callback-missing-at-close-return", "cb-missing", "Close returned (seq %d) before the close callback of simcb%d ran", ev.Seq, i)
				}
			}
		case "cbreq.panic":
			out.Violate("I1-panic", "panic|cbreq|"+panicSig(ev.Data), "a request made by the close callback of simcb%d on its own context panicked: %s", ev.ID, ev.Data)
		case "cbreq.ok":
			out.Probe("callback_reenters_context")
			if ev.Data != "4" {
				// (a direct py.Call is not itself a request; what it does shows up as body events)
				out.Violate("I6-admitted-after-callbacks", "cbreq-admitted", "a request (kind %s) made by the close callback of simcb%d on its own context was admitted", ev.Data, ev.ID)
			}
		case "cbreq.err":
			out.Probe("callback_reenters_context")
		case "cb":
			cbCount[ev.ID]++
			if firstCB == 0 {
				firstCB = ev.Seq
			}
			if cbCount[ev.ID] > 1 {
				out.Violate("I6-callback-twice", "cb-twice", "close callback of simcb%d ran %d times", ev.ID, cbCount[ev.ID])
			}
			if len(inflight) > 0 {
				out.Violate("I6-callback-while-running", "cb-while-running", "close callback of simcb%d ran (seq %d) while requests %v were executing", ev.ID, ev.Seq, keys(inflight))
			}
			if doneAt > 0 {
				out.Violate("I4-done-before-callbacks", "done-before-cb", "Done signalled (seq %d) before close callback of simcb%d (seq %d)", doneAt, ev.ID, ev.Seq)
			}
		case "done.woke":
			// a waiter woke up: Done had been signalled by now
			if len(inflight) > 0 {
				out.Violate("I4-done-while-running", "done-while-running", "a Done waiter woke up (seq %d) while requests %v were executing", ev.Seq, keys(inflight))
			}
			for i := range preloaded {
				if cbCount[i] == 0 {
					out.Violate("I4-done-before-callbacks", "done-before-cb", "a Done waiter woke up (seq %d) before the close callback of simcb%d ran", ev.Seq, i)
				}
			}
			if doneAt == 0 {
				doneAt = ev.Seq
			}
		case "done.closed":
			doneAt = ev.Seq
			if len(inflight) > 0 {
				out.Violate("I4-done-while-running", "done-while-running", "Done signalled (seq %d) while requests %v were executing", ev.Seq, keys(inflight))
			}
			for i := range preloaded {
				if cbCount[i] == 0 {
					out.Violate("I4-done-before-callbacks", "done-before-cb", "Done signalled (seq %d) before the close callback of simcb%d ran", ev.Seq, i)
				}
			}
		}
	}
	bodyStarted := map[int]bool{}
	for _, ev := range r.events {
		if ev.Kind == "body.start" {
			bodyStarted[ev.ID] = true
		}
	}
	ids := make([]int, 0, len(results))
	for id := range results {
		ids = append(ids, id)
	}
	sort.Ints(ids)
	overlap, afterClose := false, false
	for _, id := range ids {
		rr := results[id]
		if !rr.returned {
			continue
		}
		reqSpans = append(reqSpans, span{rr.invoke, rr.ret})
		if firstCloseRet > 0 && rr.invoke > firstCloseRet {
			afterClose = true
			if importTarget(rr.op) != "" && rr.loaded {
				// importing a module that is already loaded executes nothing
				out.Probe("import_of_loaded_module_after_close")
			} else if rr.err == nil {
				out.Violate("I5-request-after-close-succeeded", "after-close-ok|"+rr.op.Kind, "request %d (%s) invoked (seq %d) after Close returned (seq %d) did not fail", id, rr.op.Kind, rr.invoke, firstCloseRet)
			}
			if bodyStarted[id] {
				out.Violate("I5-request-after-close-ran", "after-close-ran|"+rr.op.Kind, "request %d (%s) invoked after Close returned ran its body", id, rr.op.Kind)
			}
		}
	}
	for _, c := range closeSpans {
		for _, q := range reqSpans {
			if c.a < q.b && q.a < c.b {
				overlap = true
			}
		}
	}
	if !res.Deadlock && !res.Capped && len(res.Panics) == 0 && firstCloseRet > 0 {
		// every callback module the context holds when everything is over was
		// created by an admitted request, i.e. before the callbacks ran
		for i := 0; i < nCB; i++ {
			if _, e := ctx.Store().GetModule(fmt.Sprintf("simcb%d", i)); e == nil && cbCount[i] == 0 {
				out.Violate("I6-module-added-after-callbacks", "cb-missing|late-module", "module simcb%d is in the closed context but its close callback never ran: it was created after (or while) the callbacks ran", i)
			}
		}
	}
	if !res.Deadlock && !res.Capped && len(res.Panics) == 0 {
		if closeInvoked && firstCloseRet > 0 && doneAt == 0 && r.done != nil {
			out.Violate("I4-done-never-signalled", "done-never", "Close returned but Done was never signalled")
		}
		if firstCloseRet > 0 && !simrt.ChanClosed(ctx.Done()) {
			out.Violate("I4-done-never-signalled", "done-never", "Close returned but the channel returned by Done() after the run is not closed")
		}
		if doneAt > 0 && firstCloseRet == 0 && closeInvoked {
			out.Violate("I2-close-never-returned", "close-never", "Done signalled but no Close returned")
		}
	}

	// coverage
	for _, t := range sc.Tasks {
		for _, op := range t.Ops {
			out.Probe("op:" + op.Kind)
			if op.Nested != "" && (op.Kind == "call" || op.Nested == "deepexec" || op.Nested == "panicimport") {
				out.Probe("op:" + op.Kind + ":" + op.Nested)
			}
		}
	}
	if overlap {
		out.Probe("close_overlaps_request")
	}
	if afterClose {
		out.Probe("request_after_close_returned")
	}
	nclose := 0
	for _, ev := range r.events {
		if ev.Kind == "close.invoke" {
			nclose++
		}
	}
	if nclose > 1 {
		out.Probe("multiple_close_calls")
	}
	if len(closeSpans) > 1 {
		for i := range closeSpans {
			for j := range closeSpans {
				if i < j && closeSpans[i].a < closeSpans[j].b && closeSpans[j].a < closeSpans[i].b {
					out.Probe("second_close_while_first_in_progress")
					i = len(closeSpans)
					break
				}
			}
		}
	}
	for _, ev := range r.events {
		if ev.Kind == "body.start" {
			for _, c := range closeSpans {
				if ev.Seq > c.a && ev.Seq < c.b {
					out.Probe("body_started_while_close_in_progress")
				}
			}
		}
	}
	if overlap || afterClose {
		var sb strings.Builder
		for _, ev := range r.events {
			fmt.Fprintf(&sb, "%d%s%d,", ev.Task, shortKind(ev.Kind), ev.ID)
		}
		out.Shape = sb.String()
	}
	return out
}

func shortKind(k string) string {
	switch k {
	case "req.invoke":
		return "i"
	case "req.return":
		return "r"
	case "body.start":
		return "s"
	case "body.end":
		return "e"
	case "close.invoke":
		return "C"
	case "close.return":
		return "R"
	case "cb":
		return "b"
	case "done.closed":
		return "D"
	case "done.wait":
		return "w"
	case "done.woke":
		return "W"
	case "fs":
		return "f"
	}
	return "?"
}

func keys(m map[int]bool) []int {
	var out []int
	for k := range m {
		out = append(out, k)
	}
	sort.Ints(out)
	return out
}

func panicSig(v string) string {
	if i := strings.IndexByte(v, '\n'); i >= 0 {
		v = v[:i]
	}
	if len(v) > 80 {
		v = v[:80]
	}
	return v
}
