// Package srcfault is the C11 engine: valid programs damaged by modelled
// stream faults (EOF at any offset, flipped / inserted / deleted bytes,
// duplicated lines, indentation corruption, token splices) and delivered
// either as a string or through a faulty io.Reader (short reads, zero-length
// reads, a read error after k bytes).  The compile pipeline must return a code
// object or a SyntaxError-family exception with a location, within a step
// budget counted by the simulator.
package srcfault

import (
	"encoding/json"
	"errors"
	"fmt"
	"io"
	"os"
	"path/filepath"
	"sort"
	"strings"

	"github.com/go-python/gpython/parser"
	"github.com/go-python/gpython/py"
	"github.com/go-python/gpython/simrt"
	"github.com/go-python/gpython/zzverif/gen"
	"github.com/go-python/gpython/zzverif/harness"
	"github.com/go-python/gpython/zzverif/pyhost"
)

type Fault struct {
	Kind string `json:"k"` // trunc flip insert delete dupline swapline indent splice
	Pos  int    `json:"p"` // position (permille of the length, or line number permille)
	Arg  int    `json:"a"`
	Text string `json:"t,omitempty"`
}

type Reader struct {
	Seed     uint64 `json:"seed"`
	MaxChunk int    `json:"max_chunk"`
	ErrAfter int    `json:"err_after"` // -1: never; else inject a read error after this many bytes
	Zero     bool   `json:"zero"`      // sprinkle (0, nil) reads
}

type Scenario struct {
	Src    string         `json:"src"`
	Name   string         `json:"name"`
	Mode   string         `json:"mode"`
	Faults []Fault        `json:"faults"`
	Reader *Reader        `json:"reader,omitempty"`
	Order  simrt.MapOrder `json:"order"`
}

type Engine struct{}

func init() { harness.Register(Engine{}) }

func (Engine) Name() string     { return "srcfault" }
func (Engine) Property() string { return "C11" }

var snippets = []string{
	"@dec(1)\n@other\ndef f(a, b=2, *args, c, d=4, **kw) -> int:\n    '''doc'''\n    return a + b\n",
	"with open(x) as f, g() as (a, b):\n    pass\n",
	"try:\n    x = 1\nexcept (A, B) as e:\n    raise C from e\nelse:\n    pass\nfinally:\n    del x\n",
	"x = [i*j for i in range(3) if i for j in y]\ny = {k: v for k, v in z}\ns = {1, 2, *r}\n",
	"s = 'a\\n' \"b\\x41\" r'c\\d' b'ef' '''tri\nple''' \"\"\"q\"\"\"\n",
	"n = 0x1f + 0o17 + 0b101 + 1e10 + 1.5j + 10**20 + 1_0 if False else 07\n",
	"while a < b <= c != d is not e not in f:\n    if x:\n        break\n    elif y:\n        continue\n    else:\n        pass\nelse:\n    pass\n",
	"class C(B, metaclass=M):\n    x: int = 1\n    def m(self):\n        nonlocal_ = lambda *a, **k: (yield)\n        return super().m()\n",
	"def g():\n    x = yield from h()\n    global y\n    y = x[1:2, ..., ::3]\n    assert y, 'msg'\n",
	"a = b = c\na, (b, *c), d = e\na += 1; b -= 2; c *= 3; d //= 4; e **= 5; f >>= 6; g <<= 7; h &= 8; i |= 9; j ^= 1; k %= 2; l @= m\n",
	"x = (1,\n     2,\n     [3,\n      4],\n    )\nif x and \\\n   y:\n    pass\n",
	"import a.b.c as d, e\nfrom . import f\nfrom ..g import (h as i, j)\nfrom k import *\n",
	"print(f(*a, **b), end='')\nlambda: (yield)\nx = not -~+y\nz = a if b else c\n",
	"for i, (j, k) in enumerate(z):\n\tif i:\n\t\tpass\n        \n    # comment\nelse:\n    pass\n",
	"\ufeffx = 1\n",
	"def \u00e9t\u00e9(\u03b1):\n    return \u03b1\n",
}

var spliceAlphabet = []string{
	"def", "class", "lambda", "yield", "return", "import", "from", "as", "global", "nonlocal", "if", "else", "elif", "for", "in", "while", "try", "except", "finally", "with", "raise", "del", "pass", "not", "and", "or", "is", "None", "True", "False", "assert", "break", "continue",
	"(", ")", "[", "]", "{", "}", ":", ",", ";", ".", "...", "->", "=", "==", "!=", "<>", "**", "*", "//", "@", "<<=", "~", "\\", "\\\n",
	"0x", "0o8", "0b2", "1e", "1e+", "1__0", "0777", "1.2.3", "1j2", "'", "\"", "'''", "\"\"\"", "b'\\xff'", "rb'", "u'x'", "f'{x}'", "'\\N{x}'", "'\\u12'", "'\\x'",
	"\n", "\n    ", "\n\t", "\r", "\r\n", "\x00", "\x0c", "\xff", "\xc3", "\xe2\x82", "\xf0\x9f\x98\x80", "$", "?", "`", "#", "\x1a",
}

var corpus []string
var corpusRoot string

func loadCorpus() {
	if corpus != nil {
		return
	}
	corpusRoot = os.Getenv("VERIF_BUILD_DIR")
	if corpusRoot != "" {
		corpusRoot = filepath.Join(corpusRoot, "plain")
	} else {
		corpusRoot = "/repo"
	}
	filepath.Walk(corpusRoot, func(p string, info os.FileInfo, err error) error {
		if err != nil {
			return nil
		}
		if info.IsDir() {
			if info.Name() == ".git" || info.Name() == "zzverif" || info.Name() == "simrt" {
				return filepath.SkipDir
			}
			return nil
		}
		if strings.HasSuffix(p, ".py") {
			rel, _ := filepath.Rel(corpusRoot, p)
			corpus = append(corpus, rel)
		}
		return nil
	})
	sort.Strings(corpus)
	if corpus == nil {
		corpus = []string{}
	}
}

// fuzzExpr builds a random expression (targets and non-targets alike) so that
// every grammar action that classifies or converts an expression meets every
// kind of operand, nested to a small depth.
func fuzzExpr(r *simrt.Rand, depth int) string {
	atoms := []string{"a", "b.c", "d[0]", "e[1:2]", "1", "'s'", "None", "f()", "g(x)(y)", "...", "-h", "i + j", "k < l", "lambda: m", "(yield)", "not n", "o if p else q", "[r for r in s]", "{1: 2}", "{3}", "b'x'", "t.u[v].w", "True", "(x)", "()", "[]", "await_", "x == y", "*z", "**kw", "x := 1"}
	if depth <= 0 || r.Chance(1, 3) {
		return atoms[r.Intn(len(atoms))]
	}
	n := 1 + r.Intn(3)
	parts := make([]string, n)
	for i := range parts {
		parts[i] = fuzzExpr(r, depth-1)
	}
	switch r.Intn(8) {
	case 0:
		return "(" + strings.Join(parts, ", ") + ",)"
	case 1:
		return "[" + strings.Join(parts, ", ") + "]"
	case 2:
		return "*" + parts[0]
	case 3:
		return "*[" + strings.Join(parts, ", ") + "]"
	case 4:
		return "*(" + strings.Join(parts, ", ") + ")"
	case 5:
		return strings.Join(parts, ", ")
	case 6:
		return "(" + parts[0] + ")"
	default:
		return parts[0] + "." + "attr"
	}
}

// stressStmt builds valid but extreme programs: sizes around 255/256, deep
// nesting, long literals and identifiers, many dedents.
func stressStmt(r *simrt.Rand) string {
	n := []int{2, 15, 16, 17, 63, 64, 65, 127, 128, 254, 255, 256, 257, 300}[r.Intn(14)]
	rep := func(s string, k int, sep string) string {
		parts := make([]string, k)
		for i := range parts {
			parts[i] = strings.Replace(s, "#", fmt.Sprint(i), -1)
		}
		return strings.Join(parts, sep)
	}
	if r.Chance(1, 40) {
		// a block whose code is longer than a 16-bit jump argument reaches
		// (sizes sampled around the 65535 / 65536 boundary and well beyond)
		k := 16376 + r.Intn(16)
		if r.Chance(1, 3) {
			k = []int{17000, 22000, 33000}[r.Intn(3)]
		}
		body := strings.Repeat(" a\n", k) + strings.Repeat(" a.b\n", r.Intn(4))
		switch r.Intn(5) {
		case 0:
			return "while x:\n" + body
		case 1:
			return "if x:\n y\nelse:\n" + body
		case 2:
			return "for i in x:\n" + body + "else:\n z\n"
		case 3:
			return "try:\n" + body + "finally:\n z\n"
		default:
			var b strings.Builder
			for i := 0; i < 14; i++ {
				b.WriteString(strings.Repeat(" ", i) + "if a:\n")
			}
			b.WriteString(strings.Repeat(strings.Repeat(" ", 14)+"a\n", k-30+r.Intn(60)))
			return b.String()
		}
	}
	switch r.Intn(16) {
	case 14, 15:
		// deeply nested blocks of the kinds the code generator keeps on its block
		// stack (for / while / with / try), inside one code object
		k := []int{3, 19, 20, 21, 22, 30, 45}[r.Intn(7)]
		var b strings.Builder
		kind := r.Intn(5)
		for i := 0; i < k; i++ {
			pad := strings.Repeat(" ", i)
			kk := kind
			if kind == 4 {
				kk = (i + k) % 4
			}
			switch kk {
			case 0:
				fmt.Fprintf(&b, "%sfor i%d in (1,):\n", pad, i)
			case 1:
				fmt.Fprintf(&b, "%swhile x%d:\n", pad, i)
			case 2:
				fmt.Fprintf(&b, "%swith c%d:\n", pad, i)
			default:
				fmt.Fprintf(&b, "%stry:\n", pad)
			}
		}
		b.WriteString(strings.Repeat(" ", k) + "t = 1\n")
		for i := k - 1; i >= 0; i-- {
			kk := kind
			if kind == 4 {
				kk = (i + k) % 4
			}
			if kk == 3 {
				fmt.Fprintf(&b, "%sfinally:\n%s pass\n", strings.Repeat(" ", i), strings.Repeat(" ", i))
			}
		}
		return b.String()
	case 0:
		return "f(" + rep("a#", n, ", ") + ")\n"
	case 1:
		return "f(" + rep("k#=#", n, ", ") + ")\n"
	case 2:
		return "def f(" + rep("p#", n, ", ") + "):\n    return p0\n"
	case 3:
		return "x = " + strings.Repeat("(", n) + "1" + strings.Repeat(")", n) + "\n"
	case 4:
		return "x = " + strings.Repeat("[", n) + strings.Repeat("]", n) + "\n"
	case 5:
		return "x = " + rep("#", n, " + ") + "\n"
	case 6:
		return "x = [" + rep("#", n, ", ") + "]\n" + "a, " + rep("b#", n%40, ", ") + " = x\n"
	case 7:
		return "x = '" + strings.Repeat("s", n*4) + "'\ny = " + strings.Repeat("9", n) + "\nz = 0x" + strings.Repeat("f", n) + "\n"
	case 8:
		var b strings.Builder
		k := n % 70
		for i := 0; i < k; i++ {
			b.WriteString(strings.Repeat(" ", i) + "if x:\n")
		}
		b.WriteString(strings.Repeat(" ", k) + "pass\n")
		return b.String()
	case 9:
		return strings.Repeat("v", n*2) + " = 1\n"
	case 10:
		return "x = {" + rep("#: #", n, ", ") + "}\ns = {" + rep("#", n, ", ") + "}\n"
	case 11:
		return "x = " + strings.Repeat("not ", n) + "y\nz = " + strings.Repeat("-", n) + "1\n"
	case 12:
		return "x = a" + rep(".b#", n, "") + rep("[#]", n%50, "") + "\n"
	default:
		return "def f():\n" + rep("    v# = #", n, "\n") + "\n    return " + rep("v#", n, " + ") + "\n"
	}
}

// scopeTemplate: small VALID nested-scope programs in which one name is bound
// by a seeded binding form at each level and read from the innermost scope.
// They must compile; they exercise the symbol-table / code-generator
// consistency checks (which panic on disagreement) with every binding form.
func scopeTemplate(r *simrt.Rand) string {
	n := []string{"a", "os", "x", "_p"}[r.Intn(4)]
	bind := func(ind string) string {
		switch r.Intn(13) {
		case 0:
			return ind + "import " + n + "\n"
		case 1:
			return ind + "from m import " + n + "\n"
		case 2:
			return ind + "import q as " + n + "\n"
		case 3:
			return ind + "for " + n + " in z:\n" + ind + "    pass\n"
		case 4:
			return ind + "with z as " + n + ":\n" + ind + "    pass\n"
		case 5:
			return ind + "def " + n + "():\n" + ind + "    pass\n"
		case 6:
			return ind + "class " + n + ":\n" + ind + "    pass\n"
		case 7:
			return ind + n + " += 1\n"
		case 8:
			return ind + "try:\n" + ind + "    pass\n" + ind + "except E as " + n + ":\n" + ind + "    pass\n"
		case 9:
			return ind + "del " + n + "\n"
		case 10:
			return ind + "(" + n + ", *rest) = z\n"
		case 11:
			return ""
		default:
			return ind + n + " = 1\n"
		}
	}
	inner := []string{"def m(self):\n            return " + n, "m = lambda self: " + n, "m = [" + n + " for _ in z]", "def m(self):\n            return [(" + n + ", k) for k in z]", "def m(self):\n            def deep():\n                return " + n + "\n            return deep"}[r.Intn(5)]
	param := []string{"", n, "*" + n, n + "=1", "*, " + n, "**" + n}[r.Intn(6)]
	var b strings.Builder
	b.WriteString(bind(""))
	b.WriteString("def outer(" + param + "):\n")
	b.WriteString(bind("    "))
	if r.Chance(1, 2) {
		b.WriteString("    class C:\n")
		b.WriteString(bind("        "))
		b.WriteString("        " + inner + "\n")
		b.WriteString(bind("        "))
	} else {
		b.WriteString("    def mid(self):\n")
		b.WriteString(bind("        "))
		b.WriteString("        " + inner + "\n")
	}
	b.WriteString(bind("    "))
	b.WriteString("    return 0\n")
	return b.String()
}

func fuzzStmt(r *simrt.Rand) string {
	if r.Chance(1, 5) {
		return scopeTemplate(r)
	}
	t := fuzzExpr(r, 2+r.Intn(2))
	u := fuzzExpr(r, 1)
	switch r.Intn(14) {
	case 0, 1, 2:
		return t + " = x\n"
	case 3:
		return t + " = " + u + " = y\n"
	case 4:
		return "del " + t + "\n"
	case 5:
		return "for " + t + " in x:\n    pass\n"
	case 6:
		return "with y as " + t + ":\n    pass\n"
	case 7:
		return t + " += 1\n"
	case 8:
		return "[0 for " + t + " in x]\n"
	case 9:
		return "def f(" + t + "):\n    pass\n"
	case 10:
		return "def f():\n    " + t + " = x\n    " + []string{"break", "continue", "return 1", "yield 2", "nonlocal q", "global a"}[r.Intn(6)] + "\n"
	case 11:
		return "class C(" + t + "):\n    " + []string{"return 1", "break", "yield", "x = " + u, "continue"}[r.Intn(5)] + "\n"
	case 12:
		return "g(" + t + ", " + u + ", k=1, k=2)\n"
	default:
		return "lambda " + t + ": " + u + "\n"
	}
}

func (Engine) Gen(seed uint64, idx int, tier string) interface{} {
	loadCorpus()
	r := simrt.NewRand(simrt.Mix(seed, 0x11, uint64(idx)))
	sc := &Scenario{Mode: []string{"exec", "exec", "single", "eval"}[r.Intn(4)], Order: simrt.MapOrder{Kind: r.Intn(4), K: r.Uint64()}}
	switch x := r.Intn(10); {
	case x < 4 && len(corpus) > 0:
		f := corpus[r.Intn(len(corpus))]
		b, err := os.ReadFile(filepath.Join(corpusRoot, f))
		if err == nil {
			lines := strings.SplitAfter(string(b), "\n")
			n := 3 + r.Intn(40)
			if n > len(lines) {
				n = len(lines)
			}
			start := r.Intn(len(lines) - n + 1)
			sc.Src = strings.Join(lines[start:start+n], "")
			sc.Name = fmt.Sprintf("%s:%d+%d", f, start+1, n)
			break
		}
		fallthrough
	case x < 5 && r.Chance(1, 2):
		sc.Src = gen.GenScope(simrt.NewRand(r.Uint64()), 2).Render()
		sc.Name = "<scopegen>"
	case x < 5:
		rr := simrt.NewRand(r.Uint64())
		switch r.Intn(3) {
		case 0:
			sc.Src = gen.GenIter(rr, nil).Render()
		case 1:
			sc.Src = gen.GenCont(rr, nil).Render()
		default:
			ip := gen.GenImport(rr, false)
			sc.Src = ip.RenderMain()
		}
		// a window of the program keeps inputs small
		lines := strings.SplitAfter(sc.Src, "\n")
		if len(lines) > 60 {
			st := r.Intn(len(lines) - 50)
			sc.Src = strings.Join(lines[st:st+50], "")
		}
		sc.Name = "<othergen>"
	case x < 7:
		n := 1 + r.Intn(2)
		for i := 0; i < n; i++ {
			sc.Src += fuzzStmt(r)
		}
		sc.Name = "<exprfuzz>"
	case x < 8 && r.Chance(1, 3):
		sc.Src = stressStmt(r)
		sc.Name = "<stress>"
	case x < 8 && r.Chance(1, 2):
		sc.Src = litFuzz(r)
		if r.Chance(1, 2) {
			sc.Src += litFuzz(r)
		}
		sc.Name = "<stress>"
	case x < 8:
		// a seeded sequence of tokens / fragments (keywords, operators, literals
		// incl. malformed ones, indentation, control bytes, non-ASCII)
		n := 1 + r.Intn(12)
		toks := append(append([]string(nil), spliceAlphabet...), "x", "y", "1", "2.5", "'s'", "f", "self", "    ", "\n", "\n", "0", "(", ")", ":", "=", ",")
		for i := 0; i < n; i++ {
			sc.Src += toks[r.Intn(len(toks))]
			if r.Chance(2, 3) {
				sc.Src += " "
			}
		}
		if r.Chance(1, 2) {
			sc.Src += "\n"
		}
		sc.Name = "<tokens>"
	default:
		n := 1 + r.Intn(3)
		for i := 0; i < n; i++ {
			sc.Src += snippets[r.Intn(len(snippets))]
		}
		sc.Name = "<snippets>"
	}
	if sc.Mode == "eval" && sc.Name != "<tokens>" && sc.Name != "<exprfuzz>" && sc.Name != "<stress>" {
		// an expression: take something bracket-rich
		es := []string{"f(a, *b, c=1, **d)[1:2].x + (lambda q: q)(1) if y else [i for i in z]", "{1: 'a', **m}", "(yield x)", "a < b < c and not d or e", "'%s' % (x,) + \"\"\"t\"\"\" * 2", "[1, 2,\n 3]", "1 + \\\n 2", "(a,\n b) \\\n + c", "x \\\n"}
		sc.Src = es[r.Intn(len(es))]
		sc.Name = "<expr>"
	}
	nf := 1 + r.Intn(2)
	if r.Chance(1, 8) {
		nf = 3
	}
	if (sc.Name == "<exprfuzz>" || sc.Name == "<tokens>" || sc.Name == "<stress>") && r.Chance(2, 3) {
		nf = 0
	}
	if r.Chance(1, 12) || ((sc.Name == "<scopegen>" || sc.Name == "<othergen>") && r.Chance(1, 3)) {
		nf = 0 // fault-free control: the undamaged source through the same pipeline and reader
	}
	kinds := []string{"trunc", "trunc", "flip", "insert", "insert", "delete", "dupline", "swapline", "indent", "splice", "splice", "splice"}
	for i := 0; i < nf; i++ {
		f := Fault{Kind: kinds[r.Intn(len(kinds))], Pos: r.Intn(1001), Arg: r.Intn(256)}
		if f.Kind == "splice" || f.Kind == "insert" {
			f.Text = spliceAlphabet[r.Intn(len(spliceAlphabet))]
			if r.Chance(1, 3) {
				f.Text += " " + spliceAlphabet[r.Intn(len(spliceAlphabet))]
			}
		}
		sc.Faults = append(sc.Faults, f)
	}
	if r.Chance(2, 5) {
		sc.Reader = &Reader{Seed: r.Uint64(), MaxChunk: 1 + r.Intn(7), ErrAfter: -1, Zero: r.Chance(1, 3)}
		if r.Chance(1, 3) {
			sc.Reader.ErrAfter = r.Intn(len(sc.Src) + 1)
		}
	}
	return sc
}

func (Engine) Decode(raw json.RawMessage) (interface{}, error) {
	var sc Scenario
	if err := json.Unmarshal(raw, &sc); err != nil {
		return nil, err
	}
	return &sc, nil
}

func (Engine) Prepare(batch []interface{}) error { return nil }

func (Engine) Reseed(sci interface{}, k uint64) interface{} {
	sc := *(sci.(*Scenario))
	sc.Order = simrt.MapOrder{Kind: int(k % 4), K: k}
	return &sc
}

func (Engine) Shrink(sci interface{}) []interface{} {
	sc := sci.(*Scenario)
	var out []interface{}
	// Work on the damaged text directly: freeze the faults into the source.
	if len(sc.Faults) > 0 {
		c := *sc
		c.Src = string(Damage(sc.Src, sc.Faults))
		c.Faults = nil
		c.Name = sc.Name + "+frozen"
		out = append(out, &c)
		for i := range sc.Faults {
			if len(sc.Faults) > 1 {
				c := *sc
				c.Faults = append(append([]Fault(nil), sc.Faults[:i]...), sc.Faults[i+1:]...)
				out = append(out, &c)
			}
		}
		return out
	}
	if sc.Reader != nil {
		c := *sc
		c.Reader = nil
		out = append(out, &c)
	}
	// drop line ranges, then halves of the longest line
	lines := strings.SplitAfter(sc.Src, "\n")
	for n := len(lines) / 2; n >= 1; n /= 2 {
		for s := 0; s+n <= len(lines); s += n {
			c := *sc
			c.Src = strings.Join(lines[:s], "") + strings.Join(lines[s+n:], "")
			out = append(out, &c)
		}
	}
	if len(lines) <= 3 {
		b := sc.Src
		for n := len(b) / 2; n >= 1; n /= 2 {
			for s := 0; s+n <= len(b); s += n {
				c := *sc
				c.Src = b[:s] + b[s+n:]
				out = append(out, &c)
			}
			if len(out) > 300 {
				break
			}
		}
	}
	return out
}

func (Engine) Describe() harness.EngineInfo {
	return harness.EngineInfo{
		Rule:        "input = a window of a repository .py file, a generated scoping program, grammar-covering snippets or an expression, damaged by 1-3 stream faults at seeded positions (truncation = EOF at an arbitrary byte; bit flip; inserted bytes/token fragments from an alphabet of ~95 incl. NUL, CR, FF, invalid and truncated UTF-8, malformed number/string prefixes, brackets, keywords; deleted range; duplicated/swapped lines; indentation corruption), compiled in exec/single/eval mode; 40% of inputs are delivered to parser.Parse through a faulty io.Reader (1..7 bytes per Read, optional (0,nil) reads, optional read error after k bytes). distinct = distinct (damaged bytes, mode, delivery) by hash; every run is non-trivial (at least one fault or a faulty reader); 1 in 40 stress sources is a block (while / if-else / for-else / try-finally / 14 nested ifs) of 16376-33000 statements, i.e. code longer than a 16-bit jump argument reaches, sampled around the 65535/65536 boundary",
		Real:        []string{"parser.Parse / lexer / yacc actions", "symtable.NewSymTable", "compile.Compile", "py.MakeSyntaxError"},
		Stubbed:     []string{"the source stream (bytes.Buffer -> fault-injecting io.Reader)", "wall-clock hang detection -> deterministic step budget (preemption points at every function entry and loop head of parser/symtable/compile)", "Go map iteration order -> simulator"},
		Assumptions: []string{"an exception counts as SyntaxError-family if its type is SyntaxError or a subtype (IndentationError, TabError) and it carries filename, lineno and offset", "when the reader reports an error the call must fail (any SyntaxError-family or OSError-family exception is accepted there: the property only constrains what compilation itself may report); exhaustive enumeration of token sequences is not done (that would be bounded model checking)"},
		TimeUnit:    "compile-pipeline function entries + loop heads (scheduler steps)",
	}
}

// Damage applies the faults to src.
func Damage(src string, faults []Fault) []byte {
	b := []byte(src)
	for _, f := range faults {
		at := func(n int) int {
			if n <= 0 {
				return 0
			}
			return f.Pos * n / 1000
		}
		switch f.Kind {
		case "trunc":
			b = b[:at(len(b))]
		case "flip":
			if len(b) > 0 {
				i := at(len(b) - 1)
				b[i] ^= 1 << uint(f.Arg%8)
			}
		case "insert", "splice":
			i := at(len(b))
			t := f.Text
			if f.Kind == "splice" {
				// replace up to Arg%8 bytes
				n := f.Arg % 8
				if i+n > len(b) {
					n = len(b) - i
				}
				b = append(append(append([]byte(nil), b[:i]...), t...), b[i+n:]...)
			} else {
				b = append(append(append([]byte(nil), b[:i]...), t...), b[i:]...)
			}
		case "delete":
			if len(b) > 0 {
				i := at(len(b) - 1)
				n := 1 + f.Arg%16
				if i+n > len(b) {
					n = len(b) - i
				}
				b = append(append([]byte(nil), b[:i]...), b[i+n:]...)
			}
		case "dupline", "swapline", "indent":
			lines := strings.SplitAfter(string(b), "\n")
			if len(lines) == 0 {
				continue
			}
			i := at(len(lines) - 1)
			switch f.Kind {
			case "dupline":
				lines = append(lines[:i+1], lines[i:]...)
			case "swapline":
				if i+1 < len(lines) {
					lines[i], lines[i+1] = lines[i+1], lines[i]
				}
			case "indent":
				l := lines[i]
				switch f.Arg % 5 {
				case 0:
					l = "\t" + l
				case 1:
					l = " " + l
				case 2:
					l = strings.TrimLeft(l, " \t")
				case 3:
					l = strings.Replace(l, "    ", "\t", 1)
				case 4:
					if len(l) > 2 && (l[0] == ' ' || l[0] == '\t') {
						l = l[1:]
					}
				}
				lines[i] = l
			}
			b = []byte(strings.Join(lines, ""))
		}
	}
	return b
}

var errInjected = errors.New("injected read error")

type faultyReader struct {
	data    []byte
	pos     int
	r       *simrt.Rand
	plan    *Reader
	errored bool
	zeros   int
	shorts  int
}

func (f *faultyReader) Read(p []byte) (int, error) {
	simrt.Yield("reader.Read")
	if f.plan.ErrAfter >= 0 && f.pos >= f.plan.ErrAfter {
		f.errored = true
		return 0, errInjected
	}
	if f.pos >= len(f.data) {
		return 0, io.EOF
	}
	if f.plan.Zero && f.r.Chance(1, 5) && f.zeros < 50 {
		f.zeros++
		return 0, nil
	}
	n := 1 + f.r.Intn(f.plan.MaxChunk)
	if n > len(p) {
		n = len(p)
	}
	if f.pos+n > len(f.data) {
		n = len(f.data) - f.pos
	}
	if f.plan.ErrAfter >= 0 && f.pos+n > f.plan.ErrAfter {
		n = f.plan.ErrAfter - f.pos
		if n == 0 {
			f.errored = true
			return 0, errInjected
		}
	}
	copy(p, f.data[f.pos:f.pos+n])
	f.pos += n
	f.shorts++
	return n, nil
}

func mode(m string) py.CompileMode {
	switch m {
	case "eval":
		return py.EvalMode
	case "single":
		return py.SingleMode
	}
	return py.ExecMode
}

type result struct {
	kind   string // code | syntax | other
	class  string
	msg    string
	hasLoc bool
	locErr string
}

// checkLoc: a SyntaxError must carry the file name it was given, a line >= 1
// (or 0 for an empty input) and an integer offset >= 0.
func checkLoc(e *py.Exception) (bool, string) {
	fn, a := e.Dict["filename"]
	ln, b := e.Dict["lineno"]
	of, c := e.Dict["offset"]
	if !a || !b || !c {
		return false, "filename/lineno/offset missing"
	}
	if s, ok := fn.(py.String); !ok || string(s) != "<fault>" {
		return false, fmt.Sprintf("filename is %v, not the name the source was compiled under", fn)
	}
	if n, ok := ln.(py.Int); !ok || n < 0 {
		return false, fmt.Sprintf("lineno is %v", ln)
	}
	if n, ok := of.(py.Int); !ok || n < 0 {
		return false, fmt.Sprintf("offset is %v", of)
	}
	return true, ""
}

func classify(code interface{}, err error, isNil bool) result {
	if err == nil {
		if isNil {
			return result{kind: "nil"}
		}
		return result{kind: "code"}
	}
	r := result{class: pyhost.ExcClass(err), msg: err.Error()}
	if py.IsException(py.SyntaxError, err) {
		r.kind = "syntax"
		r.locErr = "not a *py.Exception"
		if e, ok := err.(*py.Exception); ok {
			r.hasLoc, r.locErr = checkLoc(e)
		}
		if ei, ok := err.(py.ExceptionInfo); ok {
			if e, ok := ei.Value.(*py.Exception); ok {
				r.hasLoc, r.locErr = checkLoc(e)
			}
		}
	} else {
		r.kind = "other"
	}
	return r
}

func (Engine) Exec(sci interface{}, opt harness.ExecOpts) *harness.Outcome {
	sc := sci.(*Scenario)
	out := &harness.Outcome{}
	data := Damage(sc.Src, sc.Faults)
	for _, f := range sc.Faults {
		out.Fault(f.Kind, 1)
	}
	budget := int64(3000000 + 3000*len(data))
	var res1, res2 result
	var fr *faultyReader
	sim := simrt.New(simrt.Config{MaxSteps: budget, Order: sc.Order, KeepLog: opt.KeepLog})
	sim.Spawn("compile", func() {
		code, err := py.Compile(string(data), "<fault>", mode(sc.Mode), 0, true)
		res1 = classify(code, err, code == nil)
		simrt.Log("compile", res1.kind+" "+res1.class)
		if sc.Reader != nil {
			fr = &faultyReader{data: data, r: simrt.NewRand(sc.Reader.Seed), plan: sc.Reader}
			mod, err := parser.Parse(fr, "<fault>", mode(sc.Mode))
			res2 = classify(mod, err, mod == nil)
			simrt.Log("parse.reader", res2.kind+" "+res2.class)
		}
	})
	res := sim.Run()
	out.Steps = res.Steps
	out.LogHash = res.LogHash
	out.Capped = res.Capped
	if opt.KeepLog {
		for _, e := range res.Events {
			out.Trace = append(out.Trace, e.String())
		}
	}
	desc := fmt.Sprintf("mode=%s input=%q", sc.Mode, clip(string(data), 300))
	for _, p := range res.Panics {
		out.Violate("panic-escaped", "panic|"+stageOf(p.Stack), "panic escaped the compile pipeline: %s (%s)\n%s", p.Value, desc, p.Stack)
	}
	if res.Capped {
		out.Violate("hang", "hang", "compilation did not terminate within %d steps (%s)", budget, desc)
		return out
	}
	if len(res.Panics) > 0 {
		return out
	}
	check := func(r result, what string, readerErr bool) {
		switch r.kind {
		case "code":
			if readerErr {
				out.Violate("reader-error-ignored", "reader-error-ignored", "%s returned a result although the reader reported an error (%s)", what, desc)
			}
		case "nil":
			out.Violate("nil-nil", "nilnil|"+what, "%s returned neither a result nor an error (%s)", what, desc)
		case "syntax":
			if !r.hasLoc {
				out.Violate("syntax-error-without-location", "noloc|"+r.class, "%s: %s does not carry file name, line and offset (%s): %s (%s)", what, r.class, r.locErr, r.msg, desc)
			}
		default:
			if readerErr && (r.class == "OSError" || r.class == "IOError") {
				return
			}
			if r.class == "SystemError" {
				out.Violate("internal-error", "systemerror|"+normMsg(r.msg), "%s reported an internal failure: %s (%s)", what, r.msg, desc)
			} else {
				out.Violate("not-a-syntax-error", "class|"+r.class, "%s failed with %s, not a SyntaxError: %s (%s)", what, r.class, r.msg, desc)
			}
		}
	}
	check(res1, "Compile", false)
	if sc.Reader != nil && fr != nil {
		check(res2, "Parse(reader)", fr.errored)
		if !fr.errored {
			// chunking must not matter: same verdict as the one-piece parse
			if (res1.kind == "syntax") != (res2.kind == "syntax") && res1.kind != "other" && res2.kind != "other" {
				// res1 includes symtable+compile; only a parse-stage syntax error is comparable
				if res2.kind == "syntax" {
					out.Violate("chunking-changes-outcome", "chunking", "Parse through %d-byte reads fails (%s) but the one-piece compile succeeds (%s)", sc.Reader.MaxChunk, res2.msg, desc)
				}
			}
		}
		out.Fault("short_reads", int64(fr.shorts))
		out.Fault("zero_length_reads", int64(fr.zeros))
		if fr.errored {
			out.Fault("read_error", 1)
		}
	}
	switch res1.kind {
	case "code":
		out.Probe("damaged_input_still_compiles")
	case "syntax":
		out.Probe("syntax_error:" + res1.class)
	}
	out.Shape = fmt.Sprintf("%x|%s|%v", simrt.MixStr(0, string(data)), sc.Mode, sc.Reader != nil)
	return out
}

func clip(s string, n int) string {
	if len(s) > n {
		return s[:n] + "..."
	}
	return s
}

// normMsg strips numbers so that equal failures at different offsets share a signature.
func normMsg(m string) string {
	// the message proper is the last non-empty line of the rendered exception
	ls := strings.Split(strings.TrimSpace(m), "\n")
	m = ls[len(ls)-1]
	var b strings.Builder
	for _, c := range m {
		if c >= '0' && c <= '9' {
			continue
		}
		b.WriteRune(c)
	}
	s := b.String()
	if len(s) > 120 {
		s = s[:120]
	}
	return s
}

func stageOf(stack string) string {
	for _, st := range []string{"/compile.", "/symtable.", "/parser."} {
		if strings.Contains(stack, "gpython"+st) {
			return strings.Trim(st, "/.")
		}
	}
	return "?"
}
