package srcfault

import (
	"github.com/go-python/gpython/simrt"
	"github.com/go-python/gpython/zzverif/gen"
)

// litFuzz: see gen.LitFuzz.
func litFuzz(r *simrt.Rand) string { return gen.LitFuzz(r) }
