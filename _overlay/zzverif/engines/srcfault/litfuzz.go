package srcfault

import (
	"strings"

	"github.com/go-python/gpython/simrt"
)

// litFuzz builds string / bytes / number literals from fragments: escapes of
// every kind next to ASCII, Latin-1, BMP and astral characters and invalid
// UTF-8; number literals around the 63/64-bit and base boundaries.
func litFuzz(r *simrt.Rand) string {
	if r.Chance(1, 3) {
		digits := []int{1, 7, 8, 15, 16, 17, 18, 19, 20, 21, 22, 63, 64, 65}[r.Intn(14)]
		first := []string{"1", "7", "8", "9", "f", "F", "0"}[r.Intn(7)]
		pre := []string{"0x", "0X", "0o", "0b", "", "0"}[r.Intn(6)]
		body := first + strings.Repeat([]string{"0", "f", "7", "1", "9"}[r.Intn(5)], digits-1)
		suf := []string{"", "", "j", "e5", ".5", "L", "_"}[r.Intn(7)]
		return "x = " + pre + body + suf + "\n"
	}
	frag := []string{`\x`, `\x4`, `\x41`, `\u`, `\u12`, `ሴ`, `\U`, `\U0001`, `\U0001F600`, `\N{`, `\N{DASH}`, `\0`, `\777`, `\8`, `\`, "\\\n",
		"a", "4", "z", "é", "Ā", "€", "\U0001F600", "\xff", "\xc3", "\xe2\x82", " ", "{", "}", "%", "\t"}
	q := []string{"'", `"`, "'''", `"""`}[r.Intn(4)]
	pre := []string{"", "", "b", "r", "rb", "u", "B", "br", "f"}[r.Intn(9)]
	n := 1 + r.Intn(6)
	body := ""
	for i := 0; i < n; i++ {
		body += frag[r.Intn(len(frag))]
	}
	return "s = " + pre + q + body + q + "\n"
}
