// Package containers is the C17 engine: seeded histories of mutating and
// observing operations on aliased lists, string-keyed dicts and sets, with
// live iterators and sort callbacks interleaved with mutations, compared
// operation by operation with CPython's containers; dict/set iteration order
// is chosen by the simulator.
package containers

import (
	"encoding/json"
	"fmt"
	"strings"

	"github.com/go-python/gpython/simrt"
	"github.com/go-python/gpython/zzverif/gen"
	"github.com/go-python/gpython/zzverif/harness"
	"github.com/go-python/gpython/zzverif/pyhost"
)

type Scenario struct {
	Prog     *gen.ContProg  `json:"prog"`
	Order    simrt.MapOrder `json:"order"`
	HasRef   bool           `json:"has_ref"`
	RefTrace []string       `json:"ref_trace,omitempty"`
	RefExc   string         `json:"ref_exc,omitempty"`
}

type Engine struct{}

func init() { harness.Register(Engine{}) }

func (Engine) Name() string     { return "containers" }
func (Engine) Property() string { return "C17" }

func (Engine) Gen(seed uint64, idx int, tier string) interface{} {
	r := simrt.NewRand(simrt.Mix(seed, 0x17, uint64(idx)))
	gen.Scale = 1
	if tier == "thorough" && r.Chance(1, 2) {
		gen.Scale = 2
	}
	return &Scenario{Prog: gen.GenCont(r, harness.Excluded("containers")), Order: simrt.MapOrder{Kind: r.Intn(4), K: r.Uint64()}}
}

func (Engine) Decode(raw json.RawMessage) (interface{}, error) {
	var sc Scenario
	if err := json.Unmarshal(raw, &sc); err != nil {
		return nil, err
	}
	return &sc, nil
}

func (Engine) Prepare(batch []interface{}) error {
	var progs []pyhost.RefProgram
	for i, b := range batch {
		sc := b.(*Scenario)
		if !sc.HasRef {
			progs = append(progs, pyhost.RefProgram{ID: i, Main: sc.Prog.Render()})
		}
	}
	if len(progs) == 0 {
		return nil
	}
	res, err := pyhost.RunReference(progs)
	if err != nil {
		return err
	}
	for i, b := range batch {
		sc := b.(*Scenario)
		if sc.HasRef {
			continue
		}
		r := res[i]
		if r == nil || r.Error != "" {
			return fmt.Errorf("reference run of scenario %d failed: %+v", i, r)
		}
		sc.HasRef, sc.RefTrace, sc.RefExc = true, r.Trace, r.Exc
	}
	return nil
}

func (Engine) Reseed(sci interface{}, k uint64) interface{} {
	sc := *(sci.(*Scenario))
	sc.Order = simrt.MapOrder{Kind: int(k % 4), K: k}
	return &sc
}

func (Engine) Shrink(sci interface{}) []interface{} {
	sc := sci.(*Scenario)
	var out []interface{}
	for _, p := range gen.ShrinkCont(sc.Prog) {
		out = append(out, &Scenario{Prog: p, Order: sc.Order})
	}
	if sc.Order.Kind != 0 {
		out = append(out, &Scenario{Prog: sc.Prog, Order: simrt.MapOrder{}, HasRef: sc.HasRef, RefTrace: sc.RefTrace, RefExc: sc.RefExc})
	}
	return out
}

func (Engine) Describe() harness.EngineInfo {
	return harness.EngineInfo{
		Rule:        "history = 6 aliases (a0..a5) bound to seeded lists of ints, string-keyed dicts and sets of scalars, some aliases of one another, then 2-12 operations: list item/slice/extended-slice assignment and deletion with every sign/omission shape, append, extend/+=/slice-assign from list, tuple, iterator, generator expression, another alias or the list itself, sort (plain, reverse, key, key that mutates or reads the list or another alias), *=, +, *, membership, len, equality/identity, indexing, copies by constructor/slice/+[]/*1/sorted, rebinding aliases, live iterators (two slots) stepped between mutations, copies between lists and two observed tuples (list(t), sorted(t), tuple(list), constant tuples inside functions), for-loops that append to or delete from the list they iterate; dict set/del/get/membership/len/views/equality/copy/update/overwrite-while-iterating and keys-values-items agreement; set add/membership/len/equality/copy/|&-^/update/iteration (1 in 4 histories mixes equal scalars of different types: 1, True, 1.0); after every operation the result or exception class and a dump of all six aliases are logged. distinct = distinct program sources; non-trivial = at least one mutation through an alias; operands that mutate the container while the operation reads them (slice assignment / extend / += from a generator that appends to, deletes from or clears the same list; dict.update from pairs that set keys; set.update from a generator that adds); in-place set operators |= &= -= ^= (incl. with the set itself)",
		Real:        []string{"py.List / py.StringDict / py.Set and their iterators", "vm STORE_SUBSCR / DELETE_SUBSCR / INPLACE_* / BUILD_*", "py.SortInPlace", "builtins list dict set sorted iter next len zip"},
		Stubbed:     []string{"the environment choosing which alias mutates while which iterator is live -> seeded history", "Go map iteration order of dict and set -> simulator (asc/desc/rotation/per-loop permutation)", "reference model -> CPython 3.11 containers running the same history"},
		Assumptions: []string{"methods are generated from a static list of what the pinned tree registers (list: append extend sort; dict: items keys values get; set: add) plus update, which the property names", "list elements are ints; dict keys are strings; set elements ints, strs (and bool/float equal to ints in the mixed class)"},
		TimeUnit:    "VM instructions (scheduler steps)",
	}
}

func (Engine) Exec(sci interface{}, opt harness.ExecOpts) *harness.Outcome {
	sc := sci.(*Scenario)
	out := &harness.Outcome{}
	if !sc.HasRef {
		out.Infra = "no reference trace"
		return out
	}
	src := sc.Prog.Render()
	var trace []string
	var exc string
	sim := simrt.New(simrt.Config{MaxSteps: 5000000, Order: sc.Order, KeepLog: opt.KeepLog})
	sim.Spawn("main", func() {
		s, err := pyhost.NewSession(nil)
		if err != nil {
			exc = "SETUP:" + err.Error()
			return
		}
		defer s.Close()
		defer func() { trace = s.Trace }()
		exc = s.Run(src, "<history>")
	})
	res := sim.Run()
	out.Steps = res.Steps
	out.LogHash = simrt.MixStr(res.LogHash, strings.Join(trace, "\n")+exc)
	out.Capped = res.Capped
	if opt.KeepLog {
		out.Trace = append(out.Trace, trace...)
	}
	for _, p := range res.Panics {
		out.Violate("panic", "panic|"+firstLine(p.Value), "%s\n%s", p.Value, p.Stack)
	}
	if strings.HasPrefix(exc, "PANIC") {
		out.Violate("panic", "panic|"+opAt(sc, trace)+"|"+firstLine(exc), "%s", exc)
	}
	if res.Capped {
		out.Violate("hang", "hang|"+opAt(sc, trace), "history did not finish within the step budget")
	}
	if len(out.Violations) == 0 {
		if d := pyhost.DiffTrace(trace, sc.RefTrace); d != "" {
			kind, what := describe(sc, trace, sc.RefTrace)
			out.Violate("differs-from-reference-model", "ref|"+kind, "%s [%s]", d, what)
		} else if exc != sc.RefExc {
			out.Violate("differs-from-reference-model", "ref|toplevel|"+exc, "escaping exception: gpython %q, reference %q", exc, sc.RefExc)
		}
	}
	mut := false
	for _, op := range sc.Prog.Ops {
		out.Probe("op:" + op.Kind)
		switch {
		case strings.HasPrefix(op.Kind, "fail."):
			out.Fault("operation_fails_half_way", 1)
		case strings.HasPrefix(op.Kind, "reent."):
			out.Fault("operand_mutates_container_while_read", 1)
		}
		if op.Stmt != "" {
			mut = true
		}
	}
	if mut {
		out.Shape = src
	}
	return out
}

// opAt names the operation that was executing when the trace ended.
func opAt(sc *Scenario, trace []string) string {
	last := -1
	for _, l := range trace {
		if strings.HasPrefix(l, "\"o") {
			fmt.Sscanf(l, "\"o%d\"", &last)
		}
	}
	if last+1 < len(sc.Prog.Ops) {
		return sc.Prog.Ops[last+1].Kind
	}
	return "end"
}

func describe(sc *Scenario, got, want []string) (kind, what string) {
	n := len(got)
	if len(want) < n {
		n = len(want)
	}
	at := n
	for i := 0; i < n; i++ {
		if got[i] != want[i] {
			at = i
			break
		}
	}
	// the op whose lines contain index `at`: count "oN" lines up to there
	op := -1
	for i := 0; i <= at && i < len(want); i++ {
		if strings.HasPrefix(want[i], "\"o") {
			fmt.Sscanf(want[i], "\"o%d\"", &op)
		}
	}
	// a differing "D" dump belongs to the op logged just before it; a differing
	// line before any op line belongs to the next op
	if op < 0 {
		op = 0
	}
	if at < len(want) && !strings.HasPrefix(want[at], "\"o") && !strings.HasPrefix(want[at], "\"D\"") {
		// an inner log line ("seen", "n", "acc") precedes its op's "ok" line
		if op+1 < len(sc.Prog.Ops) {
			op++
		}
	}
	if op >= len(sc.Prog.Ops) {
		return "?", "?"
	}
	o := sc.Prog.Ops[op]
	return o.Kind, fmt.Sprintf("operation %d (%s): %s%s", op, o.Kind, o.Stmt, o.Expr)
}

func firstLine(s string) string {
	if i := strings.IndexByte(s, '\n'); i >= 0 {
		s = s[:i]
	}
	if len(s) > 100 {
		s = s[:100]
	}
	return s
}

func (Engine) Text(sci interface{}) string { return sci.(*Scenario).Prog.Render() }
