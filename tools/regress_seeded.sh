#!/bin/bash
# Re-runs every seeded change (seeded/*/patch.diff) and own mutant (mutants/*.patch) against the
# current machinery.  usage: tools/regress_seeded.sh [parallelism] > log
cd /verif || exit 2
PAR=${1:-2}
export VERIF_WORKERS=${VERIF_WORKERS:-8}
list=$(mktemp)
# patch-head.diff: the same change ported by hand to the current /repo HEAD (the code the
# original patch.diff touches was repaired since)
for d in seeded/*/; do p=$(basename $d | cut -c1-3); f=patch.diff; [ -f $d/patch-head.diff ] && f=patch-head.diff; echo "$d$f $p" ; done > $list
for f in mutants/*.patch; do p=$(basename $f | cut -c1-3); echo "$f $p"; done >> $list
# the symtable mutant breaks both C03 and C18
echo "mutants/C18-m1-unsorted-find.patch C03" >> $list
cat $list | xargs -P $PAR -L 1 bash -c 'out=$(tools/mutcheck.sh $0 $1 quick -secs 40 2>&1 | grep -E "^(CAUGHT|MISSED|BROKEN)|does not apply" | head -1 | cut -c1-200); echo "$0 [$1] ${out:-NO-RESULT}"'
rm -f $list
