#!/bin/bash
# usage: tools/mutcheck.sh <patch-file> <property> [tier] [extra check flags]
# Applies a property-breaking patch to a scratch worktree of /repo's HEAD (so that /repo itself
# stays untouched while background sweeps use it), runs the property's check against that tree
# (VERIF_REPO), removes the worktree.  Prints CAUGHT / MISSED / BROKEN(exit 2).
P=$(readlink -f "$1"); PROP=$2; TIER=${3:-quick}; shift; shift; shift 2>/dev/null
cd "${VERIF_HOME:-/verif}" || exit 2
WT=/var/tmp/mutcheck-wt-$$
git -C /repo worktree add -q --detach $WT HEAD || exit 2
trap 'git -C /repo worktree remove --force $WT; rm -f /tmp/mutcheck.$$.log' EXIT
git -C $WT apply "$P" || { echo "patch does not apply" >&2; exit 2; }
VERIF_REPO=$WT ./check "$PROP" "$TIER" -no-evidence "$@" > /tmp/mutcheck.$$.log 2>&1
RC=$?
case $RC in
 1) echo "CAUGHT $(basename $(dirname $P))/$(basename $P) by $PROP: $(grep -m1 -A1 '^VIOLATION' /tmp/mutcheck.$$.log | tail -1 | cut -c1-220)";;
 0) echo "MISSED $(basename $(dirname $P))/$(basename $P) by $PROP";;
 *) echo "BROKEN $(basename $(dirname $P))/$(basename $P) by $PROP (exit $RC): $(tail -3 /tmp/mutcheck.$$.log | cut -c1-300)";;
esac
exit 0
