#!/bin/bash
# usage: tools/mutcheck.sh <patch-file> <property> [tier] [extra check flags]
# Applies a property-breaking patch to /repo, runs the property's check, restores /repo.
# Prints CAUGHT / MISSED / BROKEN(exit 2).
P=$(readlink -f "$1"); PROP=$2; TIER=${3:-quick}; shift; shift; shift 2>/dev/null
cd /verif || exit 2
if [ -n "$(git -C /repo status --porcelain)" ]; then echo "/repo not clean" >&2; exit 2; fi
git -C /repo apply "$P" || { echo "patch does not apply" >&2; exit 2; }
./check "$PROP" "$TIER" -no-evidence "$@" > /tmp/mutcheck.$$.log 2>&1
RC=$?
git -C /repo checkout -- . ; git -C /repo clean -fdq
case $RC in
 1) echo "CAUGHT $(basename $P) by $PROP: $(grep -m1 -A1 '^VIOLATION' /tmp/mutcheck.$$.log | tail -1 | cut -c1-220)";;
 0) echo "MISSED $(basename $P) by $PROP";;
 *) echo "BROKEN $(basename $P) by $PROP (exit $RC): $(tail -3 /tmp/mutcheck.$$.log | cut -c1-300)";;
esac
rm -f /tmp/mutcheck.$$.log
exit 0
