#!/usr/bin/env python3
"""Generates /verif/MANIFEST.json from the table below (single source of truth)."""
import json, os, sys
HERE = os.path.dirname(os.path.dirname(os.path.abspath(__file__)))

TECH = "deterministic simulation with fault injection"
CLAIMED = {
 "C09": dict(engine="lifecycle", design="§3 C09",
   text="Seeded search over interleavings: 1-5 simulated caller goroutines issue RunCode/ModuleInit/ResolveAndCompile/RunFile/Close/Done-wait against the real stdlib.context, preempted before every statement of package stdlib, at every (simulated) sync operation and every VM instruction; ordering / exactly-once invariants I1-I6 are checked over the recorded event history (global event sequence numbers). Sampling, not enumeration: a clean batch is evidence, not proof.",
   note="Trusted: the scratch-copy instrumenter (type-driven, mechanical rewrites R1-R6), simsync's model of sync.{Mutex,RWMutex,Once,WaitGroup,Cond} under sequential consistency; weak-memory behaviours of racy code are not explored. Close from inside an execution of the same context is excluded.",
   technique=TECH + ": seeded cooperative scheduler (random/PCT/quantum) over real goroutines, simulated sync, history invariants, schedule minimisation"),
}

NA = {
 "C01": "pure function of the program text (evaluation order/grouping): no schedule, clock, fault or environment history to simulate; needs enumeration against a reference semantics",
 "C02": "which statement raises/returns is fixed by program + inputs; the unwinding loop is deterministic and single-threaded; no simulation target",
 "C04": "argument binding is a function of (signature, call shape); the one map-order effect (which of two simultaneous TypeErrors is reported) does not change the property's observable",
 "C06": "parsing is a function of the text; the stream-fault surface of the same code is claimed under C11, tree correctness has no fault or schedule in it",
 "C07": "integer arithmetic is a function of the operands",
 "C10": "an input-space sweep over callable x argument types; no interleaving, history or I/O fault is involved (every simulated run of the claimed properties recovers panics and reports them against the property it was checking, which is a monitor, not a claim of C10)",
 "C12": "static well-formedness / stack safety of emitted bytecode on all paths; needs abstract interpretation of bytecode, a different technique family",
 "C13": "pure function of (sequence, index/slice)",
 "C14": "pure function of the strings",
 "C15": "pure function of the numeric operands",
 "C16": "attribute lookup is a function of the class-hierarchy program; no concurrency or environment choice enters",
}
PENDING = {
 "C03": "engine `scope` (seeded map order in the scope analyser + CPython reference) not built yet",
 "C05": "engine `gens` not built yet",
 "C08": "engine `isolation` not built yet",
 "C11": "engine `srcfault` not built yet",
 "C17": "engine `containers` not built yet",
 "C18": "engine `compiledet` not built yet",
 "C19": "engine `imports` not built yet",
 "C20": "engine `repl` not built yet",
}

def main():
    checks = []
    for pid in sorted(CLAIMED):
        c = CLAIMED[pid]
        checks.append({
            "property_id": pid,
            "quick_cmd": f"./check {pid} quick",
            "thorough_cmd": f"./check {pid} thorough",
            "evidence_file": f"/verif/evidence/{pid}.json",
            "replay_cmd_template": "./check replay {path}",
            "engine": c["engine"],
            "level_claimed": {"category": c.get("level", "exploration"), "text": c["text"], "design_ref": c["design"]},
            "level_note": c["note"],
            "technique": c["technique"],
        })
    na = [{"property_id": k, "reason": v} for k, v in sorted(NA.items())]
    na += [{"property_id": k, "reason": "NOT YET CLAIMED (work in progress, not a statement of inapplicability): " + v} for k, v in sorted(PENDING.items()) if k not in CLAIMED]
    engines = {}
    for pid, c in CLAIMED.items():
        for e in c["engine"].split("+"):
            engines.setdefault(e, []).append(pid)
    m = {
        "version": 1,
        "setup_cmd": "./build.sh sim >/dev/null && ./build.sh race >/dev/null",
        "hooks": {
            "guard": "none in /repo: instrumentation is applied by tools/simrewrite to a scratch copy of the working tree (under ${VERIF_SCRATCH:-/var/tmp}/verif-build), never to /repo",
            "enable": "./build.sh copies /repo's current working tree, rewrites the copy (map ranges -> simrt.Iter, sync -> simsync, yields, os.* -> simfs, channel ops) and builds ./zzverif/cmd/sim inside it",
            "baseline_off_cmd": "cd /repo && GOFLAGS=-mod=mod GOPROXY=off GOSUMDB=off go test -vet=off -count=1 -timeout 25m ./...",
            "source_commits": [],
            "add_only": True,
        },
        "engines": [{"name": e, "path": f"_overlay/zzverif/engines/{e}", "serves_properties": sorted(p), "kind_free_text": "seeded deterministic simulation engine (workload generator + oracle + shrinker)"} for e, p in sorted(engines.items())],
        "checks": checks,
        "not_applicable": na,
        "notes": "All checks: exit 0 = held on everything explored, exit 1 + VIOLATION line = violation with a minimised replay file under /verif/out, exit 2 = infrastructure problem (build, nondeterministic simulator, reference interpreter). Known/fixed genuine defects: known_findings.json. VERIF_SEED selects the base seed.",
    }
    with open(os.path.join(HERE, "MANIFEST.json"), "w") as f:
        json.dump(m, f, indent=1)
        f.write("\n")
    try:
        import jsonschema
        jsonschema.validate(m, json.load(open("/root/.vp/MANIFEST.schema.json")))
        print("MANIFEST.json valid")
    except ImportError:
        print("MANIFEST.json written (jsonschema not available)")

main()
