#!/usr/bin/env python3
"""Generates /verif/MANIFEST.json from the table below (single source of truth)."""
import json, os, sys
HERE = os.path.dirname(os.path.dirname(os.path.abspath(__file__)))

TECH = "deterministic simulation with fault injection"
CLAIMED = {
 "C09": dict(engine="lifecycle", design="§3 C09",
   text="Seeded search over interleavings: 1-6 simulated caller goroutines issue RunCode/ModuleInit/ResolveAndCompile/RunFile/py.Import from Go/py.Call of Python functions that import, exec or eval (source or precompiled code objects)/Close/Done-wait against the real stdlib.context, with request bodies that import callback modules, raise, fail to compile, panic inside the resolver (recovered by the embedder) or nest exec up to 300 deep, and close callbacks that stay in flight or re-enter their own closing context (RunCode / py.Import / py.Call+exec), preempted before every statement of package stdlib, at every (simulated) sync operation and every VM instruction; ordering / exactly-once invariants I1-I6 are checked over the recorded event history (global event sequence numbers). Sampling, not enumeration: a clean batch is evidence, not proof.",
   note="Trusted: the scratch-copy instrumenter (type-driven, mechanical rewrites R1-R6), simsync's model of sync.{Mutex,RWMutex,Once,WaitGroup,Cond} under sequential consistency; weak-memory behaviours of racy code are not explored. Close from inside an execution of the same context is excluded.",
   technique=TECH + ": seeded cooperative scheduler (random/PCT/quantum) over real goroutines, simulated sync, history invariants, schedule minimisation"),
}

CLAIMED.update({
 "C03": dict(engine="scope", design="§3 C03",
   text="Seeded simulation of the scope analyser's only nondeterminism - Go map iteration order - plus a differential oracle: each generated scoping program (nested module/function/class/lambda/comprehension scopes up to depth 8, global/nonlocal/del/augassign as sole binding/defaults/star and keyword-only parameters/closures, frame-namespace snapshots through locals()/eval around del, names placed in a class namespace through locals(), one name also bound in builtins and global swaps under a running frame, 1 in 6 with one forbidden declaration, 1 in 12 padded beyond 255 names/constants/locals/60 parameters) is compiled and executed under 6-10 simulator-chosen map orders (always ascending and descending); code dumps and traces must be identical across orders and the trace (or compile-time rejection) must equal CPython's for the same source.",
   note="Trusted: rewrite R1 (range-over-map -> simrt.Iter, produces only orders the Go spec allows), CPython 3.11 as reference for scoping; UnboundLocalError is folded into NameError; __class__/super() and walrus are outside the fragment.",
   technique=TECH + ": seeded map-iteration-order seam, repetition under adversarial orders, CPython reference trace"),
 "C11": dict(engine="srcfault", design="§3 C11", level="fault_enumeration",
   text="Stream-fault injection into the compile pipeline: valid sources (repo .py windows, generated programs, grammar-covering snippets, literal fuzz around 63/64-bit and escape boundaries, stress shapes up to 300 operands / 45 nested blocks, blocks of 16376-33000 statements whose code is longer than a 16-bit jump argument reaches) are damaged by 1-3 modelled faults (EOF at an arbitrary byte, bit flips, inserted control/invalid-UTF-8/token fragments, deletions, duplicated/swapped lines, indentation corruption) and delivered as a string or through a faulty io.Reader (short reads, zero reads, read error after k bytes) in exec/single/eval mode; the call must return a code object or a SyntaxError-family exception with file/line/offset within a deterministic step budget (hang = budget overflow), never a panic, SystemError, other class or (nil,nil). Seeded sampling of the fault space, not token-sequence enumeration.",
   note="Trusted: the step counter inserted at every function entry / loop head of parser, symtable, compile; py.IsException for the SyntaxError family. Exhaustive short token sequences (the property's 'explored' text) are not enumerated: that is bounded model checking, not this technique.",
   technique=TECH + ": fault-injecting source stream (EOF/corruption/short reads/read errors), deterministic step budget, totality invariant"),
 "C18": dict(engine="compiledet", design="§3 C18",
   text="Seeded simulation of concurrent and repeated compilation: 1-4 cooperative tasks compile repository .py files, generated programs, literal-heavy modules (well-formed and rejected), eval expressions and single statements - through py.Compile or, as files of a simulated file system, through a context's ResolveAndCompile (plus one constant anchor file per process) - each compile under its own simulator-chosen map order, interleaved at every function entry and loop head of parser/symtable/compile (random/PCT/quantum schedulers), optionally beside a program running in a context; every code-object dump must equal the key's baseline dump (first compile, alone, ascending order), error classes must agree, and the running program's trace must equal its solo trace; a runner applying the eval/exec/compile builtins to one text in both modes must give the only possible answers.",
   note="Trusted: rewrites R1/R3; DumpCode covers bytecode, consts (recursively), names, varnames, free/cellvars, cell2arg, flags, arg counts, stacksize, firstlineno, lnotab, filename, name. Weak-memory data races are not visible to the cooperative scheduler.",
   technique=TECH + ": seeded cooperative interleaving of compile tasks + map-order seam, structural code-object comparison against a solo baseline"),
})

CLAIMED.update({
 "C05": dict(engine="gens", design="§3 C05",
   text="The simulator plays the caller of several live generators/iterators and the faulty producer: seeded histories of create/next/send/consume (54 consumers, incl. starred unpacking with >255 targets and truth tests that raise inside filter/any/all) over generator functions with try/finally and return values, generator functions with seeded RANDOM bodies (yields in operand position, inside loops / finally blocks / except handlers with a bare re-raise / with blocks, delegation, break-continue-return through pending finally blocks, the running generator resumed from inside its own frame), iterator and iterable classes, yield-from delegators, map/filter/genexp/zip/enumerate wrappers and built-in iterators, with a seeded item raising a seeded exception or the end signalled by StopIteration as class / instance / instance with value; every step's value, finally-block execution, exception class and StopIteration.args, plus two exhaustion probes per producer, must equal the trace of the same history in CPython.",
   note="Trusted: CPython 3.11 as reference (generator bodies never leak StopIteration, so PEP 479 does not matter); canonical rendering of ints/strs/lists/tuples/sets identical on both sides; frozenset(iterable), dict(zip()), str-item producers, sets of tuples and send() into non-generators are outside the generated fragment (gaps of the tree unrelated to the property, see DESIGN §2.4b).",
   technique=TECH + ": seeded caller histories over suspended generator frames + fault-injecting producers, CPython reference trace"),
})

CLAIMED.update({
 "C19": dict(engine="imports", design="§3 C19",
   text="The simulator owns the file system behind the import resolver and the arrival order of imports: 1-5 (1 in 12: 6-25) generated source modules (chains, diamonds, cycles, a shadowed copy in a second sys.path directory, __all__ incl. one naming a missing attribute / _private names, attributes of the Go module math rebound and deleted, modules reaching the running program through 'import __main__', the main program run as a script (code of a new __main__ module), decoy directory entries named like a module (directory without __init__.py, extension-less file), star imports executed with a fresh dict as locals, files appearing and sys.path changing at run time) in a virtual file system are imported in seeded order and in all five statement forms by a main program in one to three (interleaved) contexts that may share ONE code object of the main program, with missing modules and names injected in main and nested positions and, in 20% of runs, EIO / torn / vanishing files; the trace (exec-once log lines, identities, values seen by each importer, names bound by star-import, exception classes, and a follow-up program run in the same context) must equal CPython importing the same files; under file-system faults only no-panic, exec-at-most-once and context-still-usable are judged.",
   note="Trusted: rewrite R5 (os.Stat/ReadFile/Open/Getwd -> simfs in package stdlib), CPython 3.11 as reference; packages/dotted names and re-import of a module whose body raised are outside the fragment.",
   technique=TECH + ": virtual file system with ENOENT/EIO/torn/vanish faults behind the resolver, seeded import order/form, CPython reference trace, two interleaved contexts"),
})

CLAIMED.update({
 "C20": dict(engine="repl", design="§3 C20",
   text="The simulator plays the terminal of the real repl.REPL through its UI seam: seeded sessions (simple and compound statements, nested blocks, decorators, multi-line brackets and triple-quoted strings with blank lines inside, backslash continuations (also inside single-quoted strings), an embedder callable that types lines into the same REPL while a statement executes, comments, ';'-joined statements, bare expressions incl. None) are cut into physical lines with seeded indent width and extra blank lines and fed one line per event with a blank line after each multi-line statement, with injected syntax errors (single-line and inside a block) and runtime errors (after and before a side effect, incl. SyntaxErrors raised at run time for truncated source), lines of up to 140 KiB, and the embedder registering a new UI mid-session; the same lines are also piped through the command-line front end (repl/cli.RunREPL on replaced file descriptors) whose transcript must equal the prompts and prints of the directly fed REPL. Oracles per terminal event: side-effect markers occur exactly once, in order, not before the statement's last line and not after its terminating blank line; the prompt is '... ' while a statement is incomplete and '>>> ' once everything entered has run; echo = repr(value) for non-None bare expressions and nothing otherwise; compile errors are reported; _ and the final session namespace equal those of a reference session that executes the same statements one by one via exec/eval mode.",
   note="Trusted: the UI recorder, the reference session built from py.Compile(exec/eval)+RunCode of the same build (single mode / PRINT_EXPR are deliberately not used by the reference), traceback text on stderr is not inspected.",
   technique=TECH + ": simulated terminal (line-at-a-time event feed with injected erroneous statements) over the REPL's UI seam, reference session, per-event timing/prompt/exactly-once invariants"),
})

CLAIMED.update({
 "C17": dict(engine="containers", design="§3 C17",
   text="Seeded histories over a pool of six aliases bound to lists, string-keyed dicts and sets (some aliases of one another): every item/slice/extended-slice assignment and deletion shape, append/extend/+=/slice-assign from lists, tuples, iterators, generator expressions, other aliases and the container itself, sort with key functions that mutate or read lists, *=, copies by constructor/slice/+[]/*1, live iterators stepped between mutations, loops that mutate what they iterate, dict set/del/get/update/views, set add/ops, copies to and from tuples, the embedder calling through py.Call with the program's own dict as kwargs, operands that mutate the container while the operation reads them, in-place set operators, operations that fail half way (operands raising after some items, key functions raising at the k-th call, raising truth tests, absent keys), histories of up to 50 operations and containers of up to 260 elements; dict and set iteration order is chosen by the simulator. After every operation the result or exception class and a dump of all aliases must equal CPython's containers after the same history.",
   note="Trusted: CPython 3.11 containers as the reference model; methods generated from a static list of what the pinned tree registers plus update. Two known findings (equal scalars of different types kept distinct in sets; dict views iterating in unrelated orders) are listed in known_findings.json, their input classes are excluded from random generation and their witnesses replayed on every run; the repaired defects are replayed as regressions.",
   technique=TECH + ": seeded operation histories on aliased containers with live iterators and callbacks, simulator-chosen map order, CPython reference model"),
})

CLAIMED.update({
 "C08": dict(engine="isolation+race-contexts", design="§3 C08",
   text="Mode A (deterministic simulation): 2-4 contexts, one cooperative task each, run generated programs that write context-tagged values to and read back 30 kinds of reachable per-context state (module globals, a module the embedder initialised per context from same-length source, a bytes value built in place from a code-object constant, SyntaxErrors kept from failed compiles, a source module registered process-wide anew per scenario, classes of other contexts reachable through built-in types, a stdout that fails in the middle of a print, attributes of Go modules incl. os.environ, sys.path/sys.argv in place and rebound, builtins added and rebound, a source module from a shared virtual file system, class attributes, mutable defaults, attributes of built-in types), optionally all on ONE shared code object, interleaved at every VM instruction by a seeded scheduler; each context's trace must equal its solo trace and the reads of a per-context reference model, and a fingerprint of the process-global state from which contexts are built (module implementations, built-in type dictionaries) must not change. Mode B (stated as NOT deterministic): the same scenarios and parallel REPL sessions on free-running goroutines in a -race build of the uninstrumented tree; zero race reports and solo equivalence.",
   note="Trusted: rewrites R1-R3/R5; mode A explores sequentially-consistent interleavings only. Mode B decides only the data-race clause, on the executed paths of the sampled scenarios; a race report ends the worker and is reported with the scenario. Five repaired defects (built-in type attributes and os.environ shared between contexts, vm.PrintExpr raced by concurrent REPL sessions, bytes += writing into a shared constant, ModuleInit writing compiled code into a shared ModuleImpl) are replayed as regressions.",
   technique=TECH + ": seeded cooperative interleaving of contexts at VM-instruction granularity, solo-run equivalence + global-state fingerprint; plus race-detector runs on real goroutines for the data-race clause"),
})
CLAIMED["C18"]["engine"] = "compiledet+race-compile"
CLAIMED["C18"]["text"] += " Mode B (not deterministic): 4-16 real goroutines compile generated programs, literal-heavy modules and rejected / truncated sources (per-goroutine file names) concurrently in a -race build of the uninstrumented tree; dumps must agree and the race detector must stay silent."

NA = {
 "C01": "pure function of the program text (evaluation order/grouping): no schedule, clock, fault or environment history to simulate; needs enumeration against a reference semantics",
 "C02": "which statement raises/returns is fixed by program + inputs; the unwinding loop is deterministic and single-threaded; no simulation target",
 "C04": "argument binding is a function of (signature, call shape); the one map-order effect (which of two simultaneous TypeErrors is reported) does not change the property's observable",
 "C06": "parsing is a function of the text; the stream-fault surface of the same code is claimed under C11, tree correctness has no fault or schedule in it",
 "C07": "integer arithmetic is a function of the operands",
 "C10": "an input-space sweep over callable x argument types; no interleaving, history or I/O fault is involved (every simulated run of the claimed properties recovers panics and reports them against the property it was checking, which is a monitor, not a claim of C10)",
 "C12": "static well-formedness / stack safety of emitted bytecode on all paths; needs abstract interpretation of bytecode, a different technique family",
 "C13": "pure function of (sequence, index/slice)",
 "C14": "pure function of the strings",
 "C15": "pure function of the numeric operands",
 "C16": "attribute lookup is a function of the class-hierarchy program; no concurrency or environment choice enters",
}
PENDING = {
}

def main():
    checks = []
    for pid in sorted(CLAIMED):
        c = CLAIMED[pid]
        checks.append({
            "property_id": pid,
            "quick_cmd": f"./check {pid} quick",
            "thorough_cmd": f"./check {pid} thorough",
            "evidence_file": f"/verif/evidence/{pid}.json",
            "replay_cmd_template": "./check replay {path}",
            "engine": c["engine"],
            "level_claimed": {"category": c.get("level", "exploration"), "text": c["text"], "design_ref": c["design"]},
            "level_note": c["note"],
            "technique": c["technique"],
        })
    na = [{"property_id": k, "reason": v} for k, v in sorted(NA.items())]
    na += [{"property_id": k, "reason": "NOT YET CLAIMED (work in progress, not a statement of inapplicability): " + v} for k, v in sorted(PENDING.items()) if k not in CLAIMED]
    engines = {}
    for pid, c in CLAIMED.items():
        for e in c["engine"].split("+"):
            engines.setdefault(e, []).append(pid)
    m = {
        "version": 1,
        "setup_cmd": "./build.sh sim >/dev/null && ./build.sh race >/dev/null",
        "hooks": {
            "guard": "none in /repo: instrumentation is applied by tools/simrewrite to a scratch copy of the working tree (under ${VERIF_SCRATCH:-/var/tmp}/verif-build), never to /repo",
            "enable": "./build.sh copies /repo's current working tree, rewrites the copy (map ranges -> simrt.Iter, sync -> simsync, yields, os.* -> simfs, channel ops) and builds ./zzverif/cmd/sim inside it",
            "baseline_off_cmd": "cd /repo && GOFLAGS=-mod=mod GOPROXY=off GOSUMDB=off go test -vet=off -count=1 -timeout 25m ./...",
            "source_commits": [],
            "add_only": True,
        },
        "engines": [{"name": e, "path": f"_overlay/zzverif/engines/{e}", "serves_properties": sorted(p), "kind_free_text": "seeded deterministic simulation engine (workload generator + oracle + shrinker)"} for e, p in sorted(engines.items())],
        "checks": checks,
        "not_applicable": na,
        "notes": "All checks: exit 0 = held on everything explored, exit 1 + VIOLATION line = violation with a minimised replay file under /verif/out, exit 2 = infrastructure problem (build, nondeterministic simulator, reference interpreter). Known/fixed genuine defects: known_findings.json. VERIF_SEED selects the base seed.",
    }
    with open(os.path.join(HERE, "MANIFEST.json"), "w") as f:
        json.dump(m, f, indent=1)
        f.write("\n")
    try:
        import jsonschema
        jsonschema.validate(m, json.load(open("/root/.vp/MANIFEST.schema.json")))
        print("MANIFEST.json valid")
    except ImportError:
        print("MANIFEST.json written (jsonschema not available)")

main()
