#!/bin/bash
# usage: tools/confirm_seeded.sh <mutant-dir (containing patch.diff, demo/RUN.txt)> <worktree-root-the-demo-was-written-in>
# Confirms in a scratch worktree: demo passes on the clean tree, the test suite passes with the
# change, the demo fails with the change.  Prints one line per step.
export GOFLAGS=-mod=mod GOPROXY=off GOSUMDB=off GOTOOLCHAIN=local
M=$(readlink -f "$1"); ORIG=$2
WT=/tmp/confirm-wt-$$
git -C /repo worktree add -q --detach $WT HEAD || exit 2
trap 'git -C /repo worktree remove --force $WT' EXIT
cd $WT
mkdir -p _mutant/$(basename $M); cp -r $M/. _mutant/$(basename $M)/
rundemo() {
  rc=0
  go build -o gpy . || return 2
  while IFS= read -r line; do
    cmd=$(echo "$line" | sed -e 's/^ *//' -e "s#$ORIG#$WT#g" -e 's/;.*$//' -e 's/ *#.*$//')
    case "$cmd" in
      cp\ *|rm\ *) eval "$cmd" ;;
      go\ test*|./gpy\ *|go\ run\ *) eval "$cmd" >/tmp/confirm-demo-$$.log 2>&1 || rc=1 ;;
    esac
  done < <(grep -E '^ +(cp |rm |go test|go run |\./gpy )' _mutant/$(basename $M)/demo/RUN.txt | grep -v 'c11[ab].py' | awk '!seen[$0]++')
  return $rc
}
rundemo; echo "demo on clean tree: rc=$? (want 0)"
git checkout -q -- . ; git clean -fdq -e _mutant -e gpy
git apply _mutant/$(basename $M)/patch.diff || { echo "patch does not apply"; exit 1; }
go build ./... || { echo "does not compile"; exit 1; }
go test -vet=off -count=1 ./... > /tmp/confirm-suite-$$.log 2>&1; echo "test suite with change: rc=$? (want 0)"; grep -E "^(FAIL|---)" /tmp/confirm-suite-$$.log | head -5
rundemo; echo "demo with change: rc=$? (want 1)"; tail -3 /tmp/confirm-demo-$$.log | cut -c1-200
rm -f /tmp/confirm-demo-$$.log /tmp/confirm-suite-$$.log
