// simrewrite instruments a scratch copy of gpython for deterministic simulation.
//
// It never touches /repo: the driver copies the working tree to a scratch
// directory and runs `simrewrite -dir <scratch>`.  All rewrites are mechanical
// and type-driven (see DESIGN.md §2.1, R1..R6).  Every edit stays on the line
// it modifies, so Go line numbers in the scratch copy equal those in /repo.
package main

import (
	"flag"
	"fmt"
	"go/ast"
	"go/token"
	"go/types"
	"os"
	"path/filepath"
	"sort"
	"strings"

	"golang.org/x/tools/go/packages"
)

const modPath = "github.com/go-python/gpython"

type edit struct {
	off, del int
	ins      string
	prio     int // order among edits at the same offset
}

type fileEdits struct {
	path      string
	src       []byte
	edits     []edit
	needSimrt bool
	needSimfs bool
	pkgClause int // offset right after "package name"
}

var stats = map[string]int{}

func main() {
	dir := flag.String("dir", "", "scratch copy of gpython to rewrite in place")
	flag.Parse()
	if *dir == "" {
		fmt.Fprintln(os.Stderr, "usage: simrewrite -dir <scratch>")
		os.Exit(2)
	}
	cfg := &packages.Config{
		Mode: packages.NeedName | packages.NeedFiles | packages.NeedCompiledGoFiles | packages.NeedSyntax |
			packages.NeedTypes | packages.NeedTypesInfo | packages.NeedImports | packages.NeedDeps,
		Dir:   *dir,
		Tests: false,
		Env:   append(os.Environ(), "GOFLAGS=-mod=mod", "GOPROXY=off", "GOSUMDB=off"),
	}
	pkgs, err := packages.Load(cfg, "./...")
	if err != nil {
		fmt.Fprintln(os.Stderr, "simrewrite: load:", err)
		os.Exit(2)
	}
	bad := false
	for _, p := range pkgs {
		for _, e := range p.Errors {
			fmt.Fprintln(os.Stderr, "simrewrite: type error:", e)
			bad = true
		}
	}
	if bad {
		os.Exit(2)
	}
	for _, p := range pkgs {
		rel := strings.TrimPrefix(strings.TrimPrefix(p.PkgPath, modPath), "/")
		if strings.HasPrefix(rel, "simrt") || strings.HasPrefix(rel, "zzverif") {
			continue
		}
		for i, f := range p.Syntax {
			path := p.CompiledGoFiles[i]
			if strings.HasSuffix(path, "_test.go") {
				continue
			}
			if err := rewriteFile(p, rel, f, path); err != nil {
				fmt.Fprintln(os.Stderr, "simrewrite:", path+":", err)
				os.Exit(2)
			}
		}
	}
	keys := make([]string, 0, len(stats))
	for k := range stats {
		keys = append(keys, k)
	}
	sort.Strings(keys)
	for _, k := range keys {
		fmt.Printf("simrewrite: %s=%d\n", k, stats[k])
	}
}

// scope decisions -----------------------------------------------------------

func syncScope(rel string) bool {
	switch {
	case rel == "", rel == "pytest", rel == "ci", rel == "bin":
		return false
	case strings.HasPrefix(rel, "examples"), strings.HasPrefix(rel, "cmd"):
		return false
	}
	return true
}

func stmtYieldScope(rel string) bool { return rel == "stdlib" }

func entryYieldScope(rel, base string) bool {
	switch rel {
	case "parser", "symtable", "compile", "vm", "repl":
		return true
	case "py":
		switch base {
		case "module.go", "import.go", "run.go":
			return true
		}
	}
	return false
}

// ---------------------------------------------------------------------------

func rewriteFile(p *packages.Package, rel string, f *ast.File, path string) error {
	src, err := os.ReadFile(path)
	if err != nil {
		return err
	}
	fe := &fileEdits{path: path, src: src}
	fset := p.Fset
	off := func(pos token.Pos) int { return fset.Position(pos).Offset }
	text := func(n ast.Node) string { return string(src[off(n.Pos()):off(n.End())]) }
	base := filepath.Base(path)
	site := func(pos token.Pos) string {
		ps := fset.Position(pos)
		r := rel
		if r != "" {
			r += "/"
		}
		return fmt.Sprintf("%q", fmt.Sprintf("%s%s:%d", r, base, ps.Line))
	}
	fe.pkgClause = off(f.Name.End())
	iterN := 0

	// R2: sync / sync/atomic imports
	if syncScope(rel) {
		for _, imp := range f.Imports {
			var repl string
			switch imp.Path.Value {
			case `"sync"`:
				repl = `"` + modPath + `/simrt/simsync"`
				if imp.Name == nil {
					repl = "sync " + repl
				}
			case `"sync/atomic"`:
				repl = `"` + modPath + `/simrt/simatomic"`
				if imp.Name == nil {
					repl = "atomic " + repl
				}
			default:
				continue
			}
			fe.edits = append(fe.edits, edit{off: off(imp.Path.Pos()), del: len(imp.Path.Value), ins: repl})
			stats["R2.sync_imports"]++
		}
	}

	stmtYield := stmtYieldScope(rel)
	entryYield := entryYieldScope(rel, base)

	insertBeforeStmts := func(list []ast.Stmt) {
		for _, s := range list {
			switch s.(type) {
			case *ast.EmptyStmt, *ast.CaseClause, *ast.CommClause:
				continue
			}
			fe.edits = append(fe.edits, edit{off: off(s.Pos()), ins: "simrt.Yield(" + site(s.Pos()) + "); ", prio: 0})
			fe.needSimrt = true
			stats["R3.stmt_yields"]++
		}
	}
	insertAtBodyHead := func(b *ast.BlockStmt, kind string) {
		if b == nil {
			return
		}
		fe.edits = append(fe.edits, edit{off: off(b.Lbrace) + 1, ins: " simrt.Yield(" + site(b.Lbrace) + ");", prio: 5})
		fe.needSimrt = true
		stats["R3."+kind+"_yields"]++
	}

	var walkErr error
	ast.Inspect(f, func(n ast.Node) bool {
		switch n := n.(type) {
		case *ast.BlockStmt:
			if stmtYield {
				insertBeforeStmts(n.List)
			}
		case *ast.CaseClause:
			if stmtYield {
				insertBeforeStmts(n.Body)
			}
		case *ast.CommClause:
			if stmtYield {
				insertBeforeStmts(n.Body)
			}
		case *ast.FuncDecl:
			if entryYield && n.Body != nil {
				insertAtBodyHead(n.Body, "entry")
			}
		case *ast.FuncLit:
			if entryYield {
				insertAtBodyHead(n.Body, "entry")
			}
		case *ast.ForStmt:
			if entryYield {
				insertAtBodyHead(n.Body, "loop")
			}
		case *ast.RangeStmt:
			tv, ok := p.TypesInfo.Types[n.X]
			isMap := false
			if ok {
				_, isMap = tv.Type.Underlying().(*types.Map)
			}
			if isMap {
				// R1
				iterN++
				it := fmt.Sprintf("simit%d", iterN)
				hdrStart := off(n.For) + len("for")
				hdrEnd := off(n.Body.Lbrace)
				hdr := fmt.Sprintf(" %s := simrt.Iter(%s); %s.Next(); ", it, text(n.X), it)
				fe.edits = append(fe.edits, edit{off: hdrStart, del: hdrEnd - hdrStart, ins: hdr})
				blank := func(e ast.Expr) bool {
					if e == nil {
						return true
					}
					id, ok := e.(*ast.Ident)
					return ok && id.Name == "_"
				}
				var lhs, rhs []string
				if !blank(n.Key) {
					lhs = append(lhs, text(n.Key))
					rhs = append(rhs, it+".K")
				}
				if !blank(n.Value) {
					lhs = append(lhs, text(n.Value))
					rhs = append(rhs, it+".V")
				}
				if len(lhs) > 0 {
					op := ":="
					if n.Tok == token.ASSIGN {
						op = "="
					}
					bind := " " + strings.Join(lhs, ", ") + " " + op + " " + strings.Join(rhs, ", ") + ";"
					fe.edits = append(fe.edits, edit{off: off(n.Body.Lbrace) + 1, ins: bind, prio: 1})
				}
				fe.needSimrt = true
				stats["R1.map_ranges"]++
			}
			if entryYield {
				insertAtBodyHead(n.Body, "loop")
			}
		case *ast.CallExpr:
			// R5: os.* in package stdlib (root) -> simfs.*
			if rel == "stdlib" || rel == "repl/cli" {
				if sel, ok := n.Fun.(*ast.SelectorExpr); ok {
					if id, ok := sel.X.(*ast.Ident); ok {
						if pn, ok := p.TypesInfo.Uses[id].(*types.PkgName); ok && pn.Imported().Path() == "os" {
							switch sel.Sel.Name {
							case "Stat", "ReadFile", "Open", "Getwd", "Lstat", "OpenFile":
								fe.edits = append(fe.edits, edit{off: off(id.Pos()), del: len(id.Name), ins: "simfs"})
								fe.needSimfs = true
								stats["R5.fs_calls"]++
							}
						}
					}
				}
			}
			// R6: close(c)
			if syncScope(rel) {
				if id, ok := n.Fun.(*ast.Ident); ok && id.Name == "close" && len(n.Args) == 1 {
					if _, isBuiltin := p.TypesInfo.Uses[id].(*types.Builtin); isBuiltin {
						fe.edits = append(fe.edits, edit{off: off(id.Pos()), del: len("close"), ins: "simrt.ChanClose"})
						fe.needSimrt = true
						stats["R6.chan_close"]++
					}
				}
			}
		case *ast.UnaryExpr:
			if syncScope(rel) && n.Op == token.ARROW && !insideSelectComm(f, n) {
				fe.edits = append(fe.edits, edit{off: off(n.OpPos), del: len("<-"), ins: "simrt.ChanRecv("})
				fe.edits = append(fe.edits, edit{off: off(n.End()), ins: ")", prio: -5})
				fe.needSimrt = true
				stats["R6.chan_recv"]++
			}
		case *ast.SendStmt:
			if syncScope(rel) && !insideSelectComm(f, n) {
				fe.edits = append(fe.edits, edit{off: off(n.Pos()), ins: "simrt.ChanSend(", prio: 2})
				fe.edits = append(fe.edits, edit{off: off(n.Arrow), del: len("<-"), ins: ","})
				fe.edits = append(fe.edits, edit{off: off(n.End()), ins: ")", prio: -5})
				fe.needSimrt = true
				stats["R6.chan_send"]++
			}
		case *ast.GoStmt:
			if syncScope(rel) {
				fe.edits = append(fe.edits, edit{off: off(n.Go), del: len("go"), ins: "simrt.Go(func() {"})
				fe.edits = append(fe.edits, edit{off: off(n.End()), ins: "})", prio: -5})
				fe.needSimrt = true
				stats["R6.go_stmt"]++
			}
		case *ast.SelectStmt:
			if syncScope(rel) {
				hasDefault := false
				for _, c := range n.Body.List {
					if cc, ok := c.(*ast.CommClause); ok && cc.Comm == nil {
						hasDefault = true
					}
				}
				if !hasDefault {
					// a blocking select cannot be seen by the scheduler: spin it
					// through the scheduler instead (select-with-default in a
					// loop that yields as "blocked on select").
					walkErr = fmt.Errorf("blocking select at %s is not supported by the instrumenter", fset.Position(n.Pos()))
				}
			}
		}
		return true
	})
	if walkErr != nil {
		return walkErr
	}

	if len(fe.edits) == 0 {
		return nil
	}
	imp := ""
	if fe.needSimrt {
		imp += `; import simrt "` + modPath + `/simrt"`
	}
	if fe.needSimfs {
		imp += `; import simfs "` + modPath + `/simrt/simfs"`
	}
	if imp != "" {
		fe.edits = append(fe.edits, edit{off: fe.pkgClause, ins: imp})
	}
	out, err := apply(src, fe.edits)
	if err != nil {
		return err
	}
	return os.WriteFile(path, out, 0o644)
}

// insideSelectComm reports whether n is the communication of a select case
// (those are left to the native select; only selects with default are allowed).
func insideSelectComm(f *ast.File, target ast.Node) bool {
	found := false
	ast.Inspect(f, func(n ast.Node) bool {
		if found {
			return false
		}
		cc, ok := n.(*ast.CommClause)
		if !ok || cc.Comm == nil {
			return true
		}
		ast.Inspect(cc.Comm, func(m ast.Node) bool {
			if m == target {
				found = true
			}
			return !found
		})
		return !found
	})
	return found
}

func apply(src []byte, edits []edit) ([]byte, error) {
	sort.SliceStable(edits, func(i, j int) bool {
		if edits[i].off != edits[j].off {
			return edits[i].off < edits[j].off
		}
		return edits[i].prio < edits[j].prio
	})
	var out []byte
	pos := 0
	for _, e := range edits {
		if e.off < pos {
			return nil, fmt.Errorf("overlapping edits at offset %d", e.off)
		}
		out = append(out, src[pos:e.off]...)
		out = append(out, e.ins...)
		pos = e.off + e.del
	}
	out = append(out, src[pos:]...)
	return out, nil
}
